import sys, os
os.environ.setdefault('VF_WORK', '/dev/shm/vfdev')
from vf import props
pid = sys.argv[1]; uname = sys.argv[2]; be = int(sys.argv[3])
chk = props.PROPS[pid](os.environ.get('TIER','quick'), 1)
for u in chk.units:
    if u.name == uname and u.be == be:
        u.build_real(); u.lower(); u.build_gen(); print(u.dir, len(u.index), 'harnesses'); break

#!/usr/bin/env python3
"""regenerate MANIFEST.json from vf/manifest_data.py (keeps it valid and in one place)"""
import json, os, sys
sys.path.insert(0, os.path.dirname(os.path.dirname(os.path.abspath(__file__))))
from vf import manifest_data as md
ids = [json.loads(l)['id'] for l in open('/verif/properties.jsonl')]
checks = []
for pid in ids:
    if pid in md.CHECKS:
        c = md.CHECKS[pid]
        checks.append({
            'property_id': pid, 'quick_cmd': './check %s --tier quick' % pid, 'thorough_cmd': './check %s --tier thorough' % pid,
            'evidence_file': 'evidence/%s.json' % pid, 'replay_cmd_template': './check --replay {path}', 'engine': 'll2c+cbmc',
            'level_claimed': {'category': 'model_checking', 'text': c['text'], 'design_ref': c.get('ref', 'DESIGN.md 6')},
            'level_note': c['note'], 'technique': c.get('technique', md.TECHNIQUE)})
na = [{'property_id': pid, 'reason': md.NOT_APPLICABLE.get(pid, 'check not built yet (build phase in progress)')} for pid in ids if pid not in md.CHECKS]
m = {'version': 1, 'setup_cmd': 'true',
     'hooks': {'guard': 'BOOSTORG_MSM_VERIF', 'enable': 'no hooks are needed: every check compiles its generated harness TU against /repo/include directly', 'baseline_off_cmd': 'cmake --build /repo/_build --target tests && ctest --test-dir /repo/_build -j8 --timeout 900', 'source_commits': [], 'add_only': True},
     'engines': [{'name': 'll2c+cbmc', 'path': 'tools/ll2c.py, vf/', 'serves_properties': sorted(md.CHECKS), 'kind_free_text': md.ENGINE_TEXT}],
     'checks': checks, 'not_applicable': na, 'notes': md.NOTES}
json.dump(m, open('/verif/MANIFEST.json', 'w'), indent=1)
print('checks:', len(checks), 'not_applicable:', len(na))

/* ll2c runtime: the few helpers the generated C needs (environment stubs for functions the TU
 * only declares are emitted by ll2c itself with the TU's own signatures) */
#include <stdint.h>
#include <stdlib.h>
#include <string.h>
#include "ll2c_rt.h"
int ll2c_exc_pending;
#ifdef __CPROVER__
#define FAIL(msg) __CPROVER_assert(0, msg)
#define ASSUME(x) __CPROVER_assume(x)
#else
#include <stdio.h>
#define FAIL(msg) do { fprintf(stderr, "LL2C-FAIL %s\n", msg); abort(); } while (0)
#define ASSUME(x) do { if (!(x)) abort(); } while (0)
#endif
void ll2c_unreachable(void) { FAIL("env:unreachable reached"); ASSUME(0); }
void ll2c_trap(void) { FAIL("env:trap (container bound exceeded or library abort)"); ASSUME(0); }
void ll2c_bad_indirect_call(void) { FAIL("env:indirect call target outside candidate set"); ASSUME(0); }
void ll2c_fail(const char* msg) {
#ifdef __CPROVER__
  __CPROVER_assert(0, "env:library failure path reached");
#else
  fprintf(stderr, "LL2C-FAIL %s\n", msg); abort();
#endif
  ASSUME(0);
}

#include <stdint.h>
#include <stdlib.h>
#include <string.h>
#include "ll2c_rt.h"
int ll2c_exc_pending;
#ifdef __CPROVER__
#define ASSUME(x) __CPROVER_assume(x)
#define FAIL(msg) __CPROVER_assert(0, msg)
#else
#include <stdio.h>
#define ASSUME(x) do{ if(!(x)) abort(); }while(0)
#define FAIL(msg) do{ fprintf(stderr,"FAIL %s\n",msg); abort(); }while(0)
#endif
void ll2c_unreachable(void){ FAIL("unreachable reached"); ASSUME(0); }
void ll2c_trap(void){ FAIL("trap"); ASSUME(0); }
char* g__Znwm(uint64_t n){ char* p = malloc(n); ASSUME(p!=0); return p; }
void g__ZdlPv(char* p){ free(p); }
uint32_t g___cxa_guard_acquire(char* g){ return *g == 0; }
void g___cxa_guard_release(char* g){ *g = 1; }
void g__ZSt28__throw_bad_array_new_lengthv(void){ FAIL("bad_array_new_length"); ASSUME(0); }
void g__ZSt17__throw_bad_allocv(void){ FAIL("bad_alloc"); ASSUME(0); }
void g__ZSt20__throw_length_errorPKc(char* m){ FAIL("length_error"); ASSUME(0); }
void g___assert_fail(char* a, char* b, uint32_t c, char* d){ FAIL("BOOST_ASSERT"); ASSUME(0); }
void g__ZN5boost15throw_exceptionERKSt9exception(char* e){ FAIL("boost::throw_exception"); ASSUME(0); }
void g__ZNSt9exceptionD1Ev(char* e){}
void g__ZNSt13runtime_errorD2Ev(char* e){}
void g__ZNSt13runtime_errorC2EPKc(char* e, char* m){}
char* g__ZNKSt13runtime_error4whatEv(char* e){ return (char*)"what"; }
uint32_t g___cxa_atexit(char* f, char* a, char* d){ return 0; }
char* g__ZnwmRKSt9nothrow_t(uint64_t n, char* t){ char* p = malloc(n); ASSUME(p!=0); return p; }
void ll2c_bad_indirect_call(void){ FAIL("indirect call target outside candidate set"); ASSUME(0); }

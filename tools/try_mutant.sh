#!/bin/bash
# usage: tools/try_mutant.sh <patch.diff> <prop>... : apply to /repo, run the quick checks, undo
set -u
patch=$1; shift
git -C /repo apply "$patch" || { echo "patch does not apply"; exit 3; }
for p in "$@"; do
  ./check $p --tier quick > /tmp/mut_$p.log 2>&1; rc=$?
  echo "$p rc=$rc $(grep -c '^VIOLATION' /tmp/mut_$p.log) violations; $(grep '^\[C...\] tier' /tmp/mut_$p.log | cut -c1-160)"
  grep '^  C' /tmp/mut_$p.log | head -3 | cut -c1-200
done
git -C /repo checkout -- .
git -C /repo status --short | grep -v _build

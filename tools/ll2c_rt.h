#ifndef LL2C_RT_H
#define LL2C_RT_H
#include <stdint.h>
extern int ll2c_exc_pending;
void ll2c_unreachable(void);
void ll2c_trap(void);
void ll2c_bad_indirect_call(void);
void ll2c_fail(const char* msg);
int32_t ll2c_eh_typeid_for(char*);
#ifdef __CPROVER__
uint64_t nondet_uint64(void);
#define LL2C_UNDEF() nondet_uint64()
#define LL2C_ASSUME(x) __CPROVER_assume(x)
/* low tag bit of a pointer value; assumes every object starts at an even address */
#define LL2C_PTR_LOWBIT(p) ((uint64_t)(__CPROVER_POINTER_OFFSET((char*)(p)) & 1))
#define LL2C_PTR_CLEARLOW(p) ((char*)(p) - (__CPROVER_POINTER_OFFSET((char*)(p)) & 1))
#define LL2C_PTR_SETLOW(p) ((char*)(p) + (1 - (__CPROVER_POINTER_OFFSET((char*)(p)) & 1)))
#else
#define LL2C_UNDEF() 0
#define LL2C_PTR_LOWBIT(p) ((uint64_t)((uintptr_t)(p) & 1))
#define LL2C_PTR_CLEARLOW(p) ((char*)((uintptr_t)(p) & ~(uintptr_t)1))
#define LL2C_PTR_SETLOW(p) ((char*)((uintptr_t)(p) | (uintptr_t)1))
#define LL2C_ASSUME(x) do { if (!(x)) abort(); } while (0)
#endif
#endif

#!/bin/bash
# Self-test: every recorded defect (reverted fix) and every seeded change must make the listed check report a VIOLATION,
# and the unchanged tree must not.  usage: tools/selftest.sh [filter]     (run from /verif; leaves /repo clean)
cd "$(dirname "$0")/.."
fail=0
run() { # patch prop
  [[ -n "${FILTER:-}" && "$1" != *"$FILTER"* ]] && return
  git -C /repo apply "$PWD/$1" || { echo "SELFTEST cannot apply $1"; fail=1; return; }
  ./check $2 --tier quick > /tmp/selftest.log 2>&1; rc=$?
  git -C /repo checkout -- .
  n=$(grep -c '^VIOLATION' /tmp/selftest.log)
  if [[ $rc -eq 1 && $n -gt 0 ]]; then echo "SELFTEST ok   $1 -> $2 reports $n violation(s)"; else echo "SELFTEST MISS $1 -> $2 rc=$rc"; fail=1; fi
}
FILTER=${1:-}
run regress/revert-fix-back-handled-equality.diff C01
run regress/revert-fix-back-handled-equality.diff C07
run regress/revert-fix-back11-row-map.diff C01
run regress/revert-fix-back-shallow-history-direct.diff C08
run regress/revert-fix-mp11-exit-point-active.diff C09
run regress/revert-fix-back-sub-entry-original-event.diff C13
run regress/revert-fix-back-entry-throw-blocked.diff C12
run regress/revert-fix-mp11-entry-throw-blocked.diff C12
run regress/revert-fix-mp11-completion-result-uninit.diff C12
for d in seeded/S*/; do
  id=$(basename $d)
  for p in $(python3 -c "import json;print(' '.join(json.load(open('$d/meta.json'))['selftest']))"); do run $d/patch.diff $p; done
done
exit $fail

#!/usr/bin/env python3
"""Spike: LLVM-14 textual IR (typed pointers, -O1) -> C for CBMC.
Pointers become char*, named structs are mirrored, GEPs become typed access paths."""
import re, sys, collections

# ---------------------------------------------------------------- types
class T:
    pass
class TInt(T):
    def __init__(s, n): s.n = n
    def __repr__(s): return 'i%d' % s.n
class TFloat(T):
    def __init__(s, k): s.k = k
class TVoid(T): pass
class TPtr(T):
    def __init__(s, to): s.to = to
class TArr(T):
    def __init__(s, n, el): s.n = n; s.el = el
class TStruct(T):
    def __init__(s, fields, packed=False, name=None): s.fields = fields; s.packed = packed; s.name = name; s.opaque = False
class TFn(T):
    def __init__(s, ret, args, va): s.ret = ret; s.args = args; s.va = va
class TLabel(T): pass
class TMeta(T): pass

NAMED = {}          # name -> TStruct (filled lazily)
ANON = {}           # key -> (TStruct, cname)

def skipws(s, i):
    while i < len(s) and s[i] in ' \t': i += 1
    return i

def parse_type(s, i=0):
    i = skipws(s, i)
    t = None
    if s.startswith('void', i): t = TVoid(); i += 4
    elif s.startswith('label', i): t = TLabel(); i += 5
    elif s.startswith('metadata', i): t = TMeta(); i += 8
    elif s.startswith('float', i): t = TFloat('float'); i += 5
    elif s.startswith('double', i): t = TFloat('double'); i += 6
    elif s.startswith('x86_fp80', i): t = TFloat('long double'); i += 8
    elif s.startswith('opaque', i): t = TStruct([]); t.opaque = True; i += 6
    elif s[i] == 'i' and s[i+1].isdigit():
        m = re.compile(r'i(\d+)').match(s, i); t = TInt(int(m.group(1))); i = m.end()
    elif s[i] == '[':
        m = re.compile(r'\[\s*(\d+)\s+x\s+').match(s, i); n = int(m.group(1))
        el, i = parse_type(s, m.end()); i = skipws(s, i); assert s[i] == ']', s[i:i+30]; i += 1
        t = TArr(n, el)
    elif s[i] == '{' or s.startswith('<{', i):
        packed = s[i] == '<'
        i += 2 if packed else 1
        fields = []
        i = skipws(s, i)
        if s[i] == '}': i += 1
        else:
            while True:
                f, i = parse_type(s, i); fields.append(f); i = skipws(s, i)
                if s[i] == ',': i += 1; continue
                assert s[i] == '}', s[i:i+30]; i += 1; break
        if packed: assert s[i] == '>'; i += 1
        t = TStruct(fields, packed)
    elif s[i] == '<':
        raise NotImplementedError('vector type: ' + s[i:i+40])
    elif s[i] == '%':
        if s[i+1] == '"':
            j = s.index('"', i+2); name = s[i+1:j+1]; i = j+1
        else:
            m = re.compile(r'%[-A-Za-z0-9_.$]+').match(s, i); name = m.group(0)[1:]; i = m.end()
        t = NAMED.setdefault(name, TStruct(None, False, name))
    else:
        raise ValueError('type? ' + s[i:i+60])
    # suffixes: '*', function '(...)'
    while True:
        j = skipws(s, i)
        if j < len(s) and s[j] == '*': t = TPtr(t); i = j+1; continue
        if j < len(s) and s[j] == '(':
            # function type
            k = j+1; args = []; va = False
            k = skipws(s, k)
            if s[k] == ')': k += 1
            else:
                while True:
                    k = skipws(s, k)
                    if s.startswith('...', k): va = True; k += 3
                    else:
                        a, k = parse_type(s, k); args.append(a)
                    k = skipws(s, k)
                    if s[k] == ',': k += 1; continue
                    assert s[k] == ')', s[k:k+30]; k += 1; break
            t = TFn(t, args, va); i = k; continue
        break
    return t, i

def is_ptr(t): return isinstance(t, TPtr)

def tstr(t):
    if isinstance(t, TInt): return 'i%d' % t.n
    if isinstance(t, TFloat): return t.k
    if isinstance(t, TVoid): return 'void'
    if isinstance(t, TPtr): return tstr(t.to) + '*'
    if isinstance(t, TArr): return '[%d x %s]' % (t.n, tstr(t.el))
    if isinstance(t, TStruct):
        if t.name is not None: return '%' + t.name
        return ('<{%s}>' if t.packed else '{%s}') % ','.join(tstr(f) for f in t.fields)
    if isinstance(t, TFn): return '%s(%s%s)' % (tstr(t.ret), ','.join(tstr(a) for a in t.args), ',...' if t.va else '')
    return '?'
ADDR_TAKEN = {}   # fn type string -> set of function names (@...)
ADDR_TAKEN_ABI = {}  # ABI-level signature (all pointers alike) -> set of function names
def abi_key(t):
    if isinstance(t, TPtr): return 'p'
    if isinstance(t, TFn): return '%s(%s%s)' % (abi_key(t.ret), ','.join(abi_key(a) for a in t.args), ',...' if t.va else '')
    return tstr(t)

def align_of(t):
    if isinstance(t, TInt): return min(16, max(1, (1 << (max(t.n,1)-1).bit_length()) // 8)) if t.n > 8 else 1
    if isinstance(t, TFloat): return {'float':4,'double':8,'long double':16}[t.k]
    if isinstance(t, TPtr): return 8
    if isinstance(t, TArr): return align_of(t.el)
    if isinstance(t, TStruct):
        if t.packed or not t.fields: return 1
        return max(align_of(f) for f in t.fields)
    raise ValueError(t)

def size_of(t):
    if isinstance(t, TInt):
        b = (t.n + 7)//8; a = align_of(t); return (b + a-1)//a*a
    if isinstance(t, TFloat): return {'float':4,'double':8,'long double':16}[t.k]
    if isinstance(t, TPtr): return 8
    if isinstance(t, TArr): return t.n * size_of(t.el)
    if isinstance(t, TStruct):
        off = 0
        for f in t.fields:
            if not t.packed:
                a = align_of(f); off = (off + a-1)//a*a
            off += size_of(f)
        a = align_of(t)
        return (off + a-1)//a*a
    raise ValueError(t)

def field_off(t, idx):
    off = 0
    for k, f in enumerate(t.fields):
        if not t.packed:
            a = align_of(f); off = (off + a-1)//a*a
        if k == idx: return off
        off += size_of(f)
    raise IndexError

# ---------------------------------------------------------------- C naming
def mangle(n):
    n = n.strip('"')
    return re.sub(r'[^A-Za-z0-9_]', lambda m: '_%02x' % ord(m.group(0)), n)

struct_cnames = {}
struct_order = []
def cstruct_name(t):
    if t.name is not None: return 'struct S_' + PFX + mangle(t.name)
    key = ('P' if t.packed else 'N') + ','.join(cdecl(f,'') for f in t.fields)
    if key not in ANON:
        ANON[key] = (t, 'struct A_%s%d' % (PFX, len(ANON)))
    return ANON[key][1]

def cint(n):
    if n <= 8: return 'uint8_t'
    if n <= 16: return 'uint16_t'
    if n <= 32: return 'uint32_t'
    if n <= 64: return 'uint64_t'
    if n <= 128: return 'unsigned __int128'
    raise ValueError(n)
def csint(n): return cint(n).replace('uint', 'int').replace('unsigned __int128', '__int128')

def ctype(t):
    if isinstance(t, TInt): return cint(t.n)
    if isinstance(t, TFloat): return t.k
    if isinstance(t, TVoid): return 'void'
    if isinstance(t, TPtr):
        if TYPED and isinstance(t.to, TStruct) and t.to.name is not None: return cstruct_name(t.to) + '*'
        return 'char*'
    if isinstance(t, TStruct): return cstruct_name(t)
    if isinstance(t, TArr): raise ValueError('array value type')
    raise ValueError(t)

def cdecl(t, name):
    """declaration of a variable/field of LLVM type t"""
    if isinstance(t, TArr):
        dims = ''
        while isinstance(t, TArr): dims += '[%d]' % t.n; t = t.el
        return '%s %s%s' % (ctype(t), name, dims)
    return '%s %s' % (ctype(t), name)

def emit_struct_defs(out):
    done = set()
    def visit(t):
        if isinstance(t, TArr): visit(t.el); return
        if not isinstance(t, TStruct): return
        cn = cstruct_name(t)
        if cn in done: return
        done.add(cn)
        if t.fields is None or t.opaque:
            out.append('%s { char opaque_; };' % cn); return
        for f in t.fields: visit(f)
        body = ' '.join(cdecl(f, 'f%d' % k) + ';' for k, f in enumerate(t.fields))
        if not t.fields: body = ''
        if not t.fields:
            out.append('%s { char empty_[0]; };' % cn)
        else:
            out.append('%s { %s }%s;' % (cn, body, ' __attribute__((packed))' if t.packed else ''))
            out.append('_Static_assert(sizeof(%s)==%d, "layout %s");' % (cn, size_of(t), cn))
    # iterate until fixpoint because ctype() may register new anon structs
    while True:
        n = len(done)
        for t in list(NAMED.values()): visit(t)
        for t, _ in list(ANON.values()): visit(t)
        if len(done) == n: break

# ---------------------------------------------------------------- operand parsing
TYPED = True
class Val:
    def __init__(s, ty, c): s.ty = ty; s.c = c   # c: C expression string

def local_name(tok): return 'v_' + mangle(tok[1:])
LIBC = {'@strcmp', '@strlen', '@memcmp', '@memchr', '@strncmp', '@abort', '@bcmp'}
def global_name(tok):
    if tok in LIBC: return tok[1:]
    return 'g' + (PFX if PFX else '_') + mangle(tok[1:])

FUNCS = {}    # name -> (TFn, defined)
GLOBALS = {}  # name -> type (pointee)

CAST_OPS = ('bitcast','ptrtoint','inttoptr','trunc','zext','sext','addrspacecast')

def split_top(s, sep=','):
    parts = []; depth = 0; cur = ''; inq = False
    for ch in s:
        if ch == '"': inq = not inq
        if not inq:
            if ch in '([{<': depth += 1
            elif ch in ')]}>': depth -= 1
            elif ch == sep and depth == 0: parts.append(cur); cur = ''; continue
        cur += ch
    if cur.strip(): parts.append(cur)
    return [p.strip() for p in parts]

def match_paren(s, i):
    assert s[i] == '('
    depth = 0; inq = False
    for j in range(i, len(s)):
        if s[j] == '"': inq = not inq
        if inq: continue
        if s[j] == '(': depth += 1
        elif s[j] == ')':
            depth -= 1
            if depth == 0: return j
    raise ValueError('unbalanced')

PARAM_ATTR = re.compile(r'\s*(?:(?:noundef|nonnull|nocapture|readonly|writeonly|readnone|noalias|returned|zeroext|signext|inreg|immarg|nofree|nest|swiftself|inrange|align \d+)\b|dereferenceable\(\d+\)|dereferenceable_or_null\(\d+\))')

def strip_attrs(s, i):
    while True:
        m = PARAM_ATTR.match(s, i)
        if m: i = m.end(); continue
        m = re.compile(r'\s*(sret|byval|byref|preallocated|inalloca|elementtype)\(').match(s, i)
        if m:
            j = match_paren(s, m.end()-1); i = j+1; continue
        return i

def parse_value(ty, s, i=0):
    """parse an operand of known type ty at s[i:]; returns (Val, newi)"""
    i = skipws(s, i)
    m = re.compile(r'%"[^"]*"|%[-A-Za-z0-9_.$]+').match(s, i)
    if m: return Val(ty, local_name(m.group(0))), m.end()
    m = re.compile(r'@"[^"]*"|@[-A-Za-z0-9_.$]+').match(s, i)
    if m:
        cexpr = '((%s)&%s)' % (ctype(ty), global_name(m.group(0)))
        g = GLOBALS.get(m.group(0))
        if g and isinstance(g[0], (TStruct, TArr)) and not g[2]: PTRINFO[cexpr] = (cexpr, g[0], 0)
        return Val(ty, cexpr), m.end()
    m = re.compile(r'-?\d+').match(s, i)
    if m and isinstance(ty, TInt):
        v = int(m.group(0)) & ((1 << ty.n) - 1)
        suf = 'ULL' if ty.n > 32 else 'U'
        return Val(ty, '((%s)%d%s)' % (cint(ty.n), v, suf)), m.end()
    for kw, val in (('null', '((%s)0)' % (ctype(ty) if is_ptr(ty) else 'char*')), ('true', '((uint8_t)1)'), ('false', '((uint8_t)0)')):
        if s.startswith(kw, i): return Val(ty, val), i+len(kw)
    for kw in ('undef', 'poison', 'zeroinitializer'):
        if s.startswith(kw, i):
            if kw == 'undef' and isinstance(ty, TInt) and ty.n in (8, 16, 32, 64) and UNDEF_NONDET:
                # an indeterminate value: any value (so that a result depending on it fails for some value)
                return Val(ty, '((%s)LL2C_UNDEF())' % ctype(ty)), i+len(kw)
            if isinstance(ty, TStruct): return Val(ty, '((%s){0})' % ctype(ty)), i+len(kw)
            if is_ptr(ty): return Val(ty, '((%s)0)' % ctype(ty)), i+len(kw)
            return Val(ty, '((%s)0)' % ctype(ty)), i+len(kw)
    # constant expressions
    m = re.compile(r'getelementptr\s+(inbounds\s+)?\(').match(s, i)
    if m:
        j = match_paren(s, m.end()-1)
        inner = s[m.end():j]
        ge, gt, info = gep_expr(inner)
        cexpr = '((%s)%s)' % (ctype(ty), ge)
        if info: PTRINFO[cexpr] = info
        return Val(ty, cexpr), j+1
    m = re.compile(r'(bitcast|ptrtoint|inttoptr|trunc|zext|sext|addrspacecast)\s*\(').match(s, i)
    if m:
        j = match_paren(s, m.end()-1)
        inner = s[m.end():j]
        k = inner.rindex(' to ')
        sty, p = parse_type(inner, 0)
        sv, _ = parse_value(sty, inner[:k], p)
        dty, _ = parse_type(inner[k+4:], 0)
        if m.group(1) == 'inttoptr' and getattr(sv, 'ptr', None):
            return Val(ty, '((%s)%s)' % (ctype(dty), sv.ptr)), j+1
        ce = cast_expr(m.group(1), sv, dty)
        if m.group(1) == 'ptrtoint':
            v_ = Val(ty, ce); v_.ptr = sv.c
            return v_, j+1
        if m.group(1) == 'bitcast' and sv.c in PTRINFO: PTRINFO[ce] = PTRINFO[sv.c]
        return Val(ty, ce), j+1
    m = re.compile(r'(add|sub|and|or|xor|mul|shl|lshr)\s*(nuw\s+|nsw\s+)*\(').match(s, i)
    if m:
        j = match_paren(s, m.end()-1)
        a, b = split_top(s[m.end():j])
        aty, p = parse_type(a); av, _ = parse_value(aty, a, p)
        bty, p = parse_type(b); bv, _ = parse_value(bty, b, p)
        if m.group(1) in ('or', 'and') and getattr(av, 'ptr', None) and const_idx(bv) in (1, -2):
            k_ = const_idx(bv)
            mac = {('or', 1): 'LL2C_PTR_SETLOW', ('and', -2): 'LL2C_PTR_CLEARLOW'}.get((m.group(1), k_))
            if mac:
                v_ = Val(ty, '((uint64_t)(uintptr_t)%s(%s))' % (mac, av.ptr)); v_.ptr = '%s(%s)' % (mac, av.ptr)
                return v_, j+1
            if m.group(1) == 'and' and k_ == 1:
                return Val(ty, 'LL2C_PTR_LOWBIT(%s)' % av.ptr), j+1
        op = {'add':'+','sub':'-','and':'&','or':'|','xor':'^','mul':'*','shl':'<<','lshr':'>>'}[m.group(1)]
        return Val(ty, '((%s)(%s %s %s))' % (ctype(ty), av.c, op, bv.c)), j+1
    if s[i] == '{' or s.startswith('<{', i):
        # struct constant as value (rare in function bodies)
        close = '}>' if s[i] == '<' else '}'
        j = s.index(close, i)  # not nested-safe but ok for {i64,i64}
        inner = s[i+(2 if s[i]=='<' else 1):j]
        parts = split_top(inner)
        vals = []
        for pstr in parts:
            pty, p = parse_type(pstr); pv, _ = parse_value(pty, pstr, p); vals.append(pv.c)
        return Val(ty, '((%s){%s})' % (ctype(ty), ', '.join(vals))), j+len(close)
    raise ValueError('value? ' + s[i:i+80])

def parse_typed_value(s, i=0):
    i = strip_attrs(s, i)
    ty, i = parse_type(s, i)
    i = strip_attrs(s, i)
    v, i = parse_value(ty, s, i)
    return v, i

def cast_expr(op, sv, dty):
    if op in ('bitcast', 'addrspacecast'):
        if is_ptr(sv.ty) and is_ptr(dty): return '((%s)%s)' % (ctype(dty), sv.c)
        if isinstance(sv.ty, TInt) and isinstance(dty, TInt): return sv.c
        raise NotImplementedError('bitcast %s' % sv.c)
    if op == 'ptrtoint': return '((%s)(uintptr_t)%s)' % (cint(dty.n), sv.c)
    if op == 'inttoptr': return '((%s)(uintptr_t)%s)' % (ctype(dty), sv.c)
    if op == 'trunc':
        e = '((%s)%s)' % (cint(dty.n), sv.c)
        if dty.n not in (8,16,32,64): e = '((%s)(%s & %d))' % (cint(dty.n), e, (1<<dty.n)-1)
        return e
    if op == 'zext':
        src = sv.c
        if sv.ty.n not in (8,16,32,64): src = '(%s & %d)' % (src, (1<<sv.ty.n)-1)
        return '((%s)%s)' % (cint(dty.n), src)
    if op == 'sext':
        if sv.ty.n == 1: return '((%s)(-(%s)(%s & 1)))' % (cint(dty.n), csint(dty.n), sv.c)
        return '((%s)(%s)(%s)%s)' % (cint(dty.n), csint(dty.n), csint(sv.ty.n), sv.c)
    raise NotImplementedError(op)

def gep_expr(inner):
    """inner: 'T, T* base, idx...' -> C expr of type char*"""
    parts = split_top(inner)
    sty, _ = parse_type(parts[0])
    base, _ = parse_typed_value(parts[1])
    idxs = [parse_typed_value(p)[0] for p in parts[2:]]
    e, t = gep_c(sty, base, idxs)
    return e, t, gep_info(sty, base, idxs)

def idx_signed(v):
    # index as signed C expr
    if re.fullmatch(r'\(\(uint\d+_t\)(\d+)U(LL)?\)', v.c):
        n = int(re.fullmatch(r'\(\(uint\d+_t\)(\d+)U(LL)?\)', v.c).group(1))
        if n >= 1 << (v.ty.n-1): n -= 1 << v.ty.n
        return str(n), n
    return '((int64_t)(%s)%s)' % (csint(v.ty.n), v.c), None

def elem_ptr_type(t):
    """C type to cast a char* to so that indexing yields LLVM type t"""
    if isinstance(t, TArr):
        dims = ''
        e = t
        while isinstance(e, TArr): dims += '[%d]' % e.n; e = e.el
        return '%s(*)%s' % (ctype(e), dims), True
    return ctype(t) + '*', False

CUR_BODY = ['']
EXTRA_TYPES = []
def alloc_layout(dst, n):
    """C type for a heap object of n bytes created in the current function, so that CBMC keeps one SSA symbol per field:
    (1) the named struct the result is bitcast to, if its size is n; (2) a struct synthesised from the constant-offset typed
    stores the function performs on the fresh object (fields where something is stored, byte padding elsewhere)"""
    txt = CUR_BODY[0]
    var = '%' + dst[2:] if dst.startswith('v_') else None
    if var is None: return None
    rv = re.escape(var)
    m = re.search(r'= bitcast i8\* %s to (%%"[^"]*"|%%[-A-Za-z0-9_.$]+)\*' % rv, txt)
    if m:
        t = NAMED.get(m.group(1)[1:])
        try:
            if t is not None and t.fields and not t.opaque and size_of(t) == n: return cstruct_name(t)
        except Exception: pass
    # constant-offset views of the fresh object: %a = getelementptr inbounds i8, i8* %x, i64 K ; %b = bitcast i8* %a to T*
    offs = {var: 0}
    for gm in re.finditer(r'(%%[-A-Za-z0-9_.$]+) = getelementptr inbounds i8, i8\* %s, i64 (\d+)' % rv, txt): offs[gm.group(1)] = int(gm.group(2))
    fields = {}
    for v_, off in offs.items():
        for bm in re.finditer(r'(%%[-A-Za-z0-9_.$]+) = bitcast i8\* %s to ([^\n]*?)\*\s*$' % re.escape(v_), txt, re.M):
            try: ty, _ = parse_type(bm.group(2))
            except Exception: continue
            if isinstance(ty, (TInt, TPtr)) and off not in fields: fields[off] = ty
        if re.search(r'store i8 [^,\n]*, i8\* %s\b' % re.escape(v_), txt) and off not in fields: fields[off] = TInt(8)
    if not fields: return None
    items = []; pos = 0
    for off in sorted(fields):
        ty = fields[off]; sz = size_of(ty)
        if off < pos or off + sz > n or off % align_of(ty): return None
        if off > pos: items.append('unsigned char pad%d[%d];' % (pos, off - pos))
        items.append('%s f%d;' % (ctype(ty) if not isinstance(ty, TPtr) else 'char*', off)); pos = off + sz
    if pos < n: items.append('unsigned char pad%d[%d];' % (pos, n - pos))
    key = (n, ' '.join(items))
    if key in LAYOUTS: return LAYOUTS[key]
    name = 'struct H_%s%d' % (PFX, len(EXTRA_TYPES))
    EXTRA_TYPES.append('%s { %s };\n_Static_assert(sizeof(%s) == %d, "heap layout");' % (name, ' '.join(items), name, n))
    LAYOUTS[key] = name
    return name
LAYOUTS = {}
CLONE_SIZES = set()
HEAP_LAY = {}   # local var -> (layout name, size) of a clone-site allocation in the current function
def clone_layout(dst, n):
    """a fresh object that is immediately filled by a whole-object memcpy (boost::function's functor_manager clone): typed
    with the layout shared by every synthesised layout of that size in this TU (resolved when the types are printed)"""
    var = '%' + dst[2:] if dst.startswith('v_') else None
    if var is None or n % 8: return None
    if re.search(r'call void @llvm\.memcpy\.p0i8\.p0i8\.i64\(i8\* [^,]*%s, i8\* [^,]*, i64 %d, i1 false\)' % (re.escape(var), n), CUR_BODY[0]):
        CLONE_SIZES.add(n); HEAP_LAY[dst] = ('struct HC_%s%d' % (PFX, n), n); return 'struct HC_%s%d' % (PFX, n)
    return None
def clone_types():
    out = []
    for n in sorted(CLONE_SIZES):
        same = [k for k in LAYOUTS if k[0] == n]
        body = same[0][1] if len(same) == 1 else 'char* w[%d];' % (n // 8)
        out.append('struct HC_%s%d { %s };' % (PFX, n, body))
    return out

PTRISH = set()  # local i64 vars that flow into an inttoptr in the current function
PTRINT = {}    # local i64 var -> pointer C expr it was derived from (ptrtoint), for tag-bit idioms
PTRINFO = {}   # C expr string -> (root C expr, root LLVM type, constant byte offset): statically known typed origin of a pointer

def const_idx(v):
    m = re.fullmatch(r'\(\(uint\d+_t\)(\d+)U(LL)?\)', v.c)
    if not m: return None
    n = int(m.group(1))
    if n >= 1 << (v.ty.n-1): n -= 1 << v.ty.n
    return n

def gep_static_off(sty, idxs):
    """constant byte offset of a GEP, or None"""
    try:
        k0 = const_idx(idxs[0])
        if k0 is None: return None
        off = k0 * (size_of(sty) if not (isinstance(sty, TStruct) and (sty.fields is None or sty.opaque)) else 0)
        t = sty
        for iv in idxs[1:]:
            k = const_idx(iv)
            if k is None: return None
            if isinstance(t, TStruct): off += field_off(t, k); t = t.fields[k]
            elif isinstance(t, TArr): off += k * size_of(t.el); t = t.el
            else: return None
        return off
    except Exception:
        return None

def gep_info(sty, base, idxs):
    off = gep_static_off(sty, idxs)
    if off is None: return None
    if base.c in PTRINFO:
        r, rt, o0 = PTRINFO[base.c]
        return (r, rt, o0 + off)
    if isinstance(sty, (TStruct, TArr)) and not (isinstance(sty, TStruct) and (sty.fields is None or sty.opaque)):
        if off < 0: return None
        return (base.c, sty, off)
    return None

def gep_c(sty, base, idxs):
    # first index: pointer arithmetic over sty
    pt, _ = elem_ptr_type(sty)
    i0, k0 = idx_signed(idxs[0])
    if isinstance(sty, TStruct) and (sty.fields is None or sty.opaque or not sty.fields) and len(idxs) == 1:
        return '((char*)%s + %s*%d)' % (base.c, i0, 0 if not sty.fields else size_of(sty)), sty
    if len(idxs) == 1 and isinstance(sty, TInt) and sty.n == 8:
        return '((char*)%s + %s)' % (base.c, i0), sty
    expr = '((%s)%s)[%s]' % (pt, base.c, i0)
    t = sty
    for iv in idxs[1:]:
        s_, k = idx_signed(iv)
        if isinstance(t, TStruct):
            assert k is not None
            expr += '.f%d' % k; t = t.fields[k]
        elif isinstance(t, TArr):
            expr += '[%s]' % s_; t = t.el
        else:
            raise ValueError('gep into scalar')
    return '((char*)&%s)' % expr, t

def leaves(t, off=0, path=''):
    """scalar leaves of an LLVM type: (offset, size, access path, type)"""
    if isinstance(t, TStruct):
        if t.fields is None or t.opaque: raise ValueError('opaque')
        for k, f in enumerate(t.fields):
            yield from leaves(f, off + field_off(t, k), path + '.f%d' % k)
    elif isinstance(t, TArr):
        es = size_of(t.el)
        for i in range(t.n):
            yield from leaves(t.el, off + i * es, path + '[%d]' % i)
    else:
        yield (off, size_of(t), path, t)

LEAF_CACHE = {}
def leaves_of(t):
    k = id(t)
    if k not in LEAF_CACHE: LEAF_CACHE[k] = list(leaves(t))
    return LEAF_CACHE[k]

def root_lvalue(root_c, root_t):
    pt, _ = elem_ptr_type(root_t)
    return '((%s)%s)[0]' % (pt, root_c)

def leaves_in_range(info, n):
    """leaves of the root object inside [off, off+n); None if a leaf is only partly covered or the range leaves the object"""
    root_c, root_t, off = info
    try:
        if off < 0 or off + n > size_of(root_t): return None
        ls = leaves_of(root_t)
    except Exception:
        return None
    out = []
    for lo, ls_, path, lt in ls:
        if lo + ls_ <= off or lo >= off + n: continue
        if lo < off or lo + ls_ > off + n: return None
        out.append((lo - off, ls_, path, lt))
    return out

def typed_memset(info, n, byteval):
    sel = leaves_in_range(info, n)
    if sel is None or len(sel) > 8192: return None
    lv = root_lvalue(info[0], info[1])
    stmts = []
    for lo, sz, path, lt in sel:
        if isinstance(lt, TPtr):
            if byteval != 0: return None
            stmts.append('%s%s = (%s)0;' % (lv, path, ctype(lt)))
        elif isinstance(lt, TInt):
            v = 0
            for _ in range(sz): v = (v << 8) | byteval
            v &= (1 << lt.n) - 1
            stmts.append('%s%s = (%s)%dULL;' % (lv, path, ctype(lt), v))
        else:
            if byteval != 0: return None
            stmts.append('%s%s = 0;' % (lv, path))
    return stmts

def typed_memcpy(dinfo, sinfo, n):
    d = leaves_in_range(dinfo, n); s_ = leaves_in_range(sinfo, n)
    if d is None or s_ is None or len(d) != len(s_) or len(d) > 8192: return None
    dl = root_lvalue(dinfo[0], dinfo[1]); sl = root_lvalue(sinfo[0], sinfo[1])
    stmts = []
    for (do, dsz, dp, dt), (so, ssz, sp, st) in zip(d, s_):
        if do != so or dsz != ssz: return None
        if isinstance(dt, TPtr) != isinstance(st, TPtr): return None
        if isinstance(dt, TFloat) or isinstance(st, TFloat):
            if not (isinstance(dt, TFloat) and isinstance(st, TFloat) and dt.k == st.k): return None
        if isinstance(dt, TInt) and isinstance(st, TInt) and dt.n != st.n: return None
        stmts.append(('%s%s' % (dl, dp), '%s%s' % (sl, sp), ctype(dt)))
    # read everything first (memmove semantics for overlapping ranges are not needed for memcpy; keep order-safe anyway)
    out = ['%s t%d_ = (%s)%s;' % (ct, k, ct, se) for k, (de, se, ct) in enumerate(stmts)]
    out += ['%s = t%d_;' % (de, k) for k, (de, se, ct) in enumerate(stmts)]
    return out

# ---------------------------------------------------------------- module parsing
def read_module(path):
    lines = open(path).read().split('\n')
    return lines

def main():
    global PFX
    src = sys.argv[1]
    if len(sys.argv) > 3 and sys.argv[2] == '--prefix': PFX = sys.argv[3]
    lines = read_module(src)
    out_types = []; out_glob = []; out_init = []; out_proto = []; out_fn = []
    # pass 1: type defs
    for ln in lines:
        m = re.match(r'(%"[^"]*"|%[-A-Za-z0-9_.$]+) = type (.*)$', ln)
        if m:
            name = m.group(1)[1:]
            t, _ = parse_type(m.group(2))
            st = NAMED.setdefault(name, TStruct(None, False, name))
            st.fields = t.fields; st.packed = t.packed; st.opaque = t.opaque
    # pass 2: globals and function signatures
    fn_hdr = re.compile(r'^(define|declare)\b(.*)$')
    i = 0
    bodies = []
    ctors = []
    while i < len(lines):
        ln = lines[i]
        m = re.match(r'(@"[^"]*"|@[-A-Za-z0-9_.$]+) = (.*)$', ln)
        if m:
            gname = m.group(1); rest = m.group(2)
            if gname == '@llvm.global_ctors':
                for cm in re.finditer(r'void \(\)\* (@[-A-Za-z0-9_.$]+)', rest): ctors.append(cm.group(1))
                i += 1; continue
            if gname in ('@llvm.used', '@llvm.compiler.used'): i += 1; continue
            mm = re.search(r'\b(global|constant)\s+', rest)
            ext = bool(re.match(r'external\b', rest)) or ' external ' in (' '+rest[:mm.start()])
            ty, p = parse_type(rest, mm.end())
            GLOBALS[gname] = (ty, rest[p:], ext)
            i += 1; continue
        m = fn_hdr.match(ln)
        if m:
            kind = m.group(1)
            # find '@name('
            am = re.search(r'(@"[^"]*"|@[-A-Za-z0-9_.$]+)\s*\(', ln)
            fname = am.group(1)
            pre = ln[len(kind):am.start()]
            # strip linkage/attrs words until a type parses
            toks = pre.strip()
            # remove known leading keywords
            toks = re.sub(r'\b(dso_local|internal|linkonce_odr|weak_odr|weak|private|external|available_externally|hidden|protected|default|local_unnamed_addr|unnamed_addr|fastcc|ccc|coldcc|noundef|nonnull|noalias|zeroext|signext|align \d+|dereferenceable\(\d+\)|dereferenceable_or_null\(\d+\))\b', '', toks).strip()
            toks = re.sub(r'dereferenceable(_or_null)?\(\d+\)', '', toks).strip()
            rty, _ = parse_type(toks)
            pe = match_paren(ln, am.end()-1)
            params = split_top(ln[am.end():pe])
            ptys = []; pnames = []; va = False; byval = []
            for ps in params:
                if ps == '...': va = True; continue
                pty, p = parse_type(ps)
                bv = re.search(r'byval\((.*)\)', ps)
                # name is last token if starts with %
                nm = re.search(r'(%"[^"]*"|%[-A-Za-z0-9_.$]+)\s*$', ps)
                ptys.append(pty); pnames.append(nm.group(1) if nm else None)
                byval.append(parse_type(bv.group(1)[:match_paren('('+bv.group(1)+')',0)-1])[0] if bv else None)
            FUNCS[fname] = (TFn(rty, ptys, va), kind == 'define')
            if kind == 'define':
                body = []
                i += 1
                while lines[i] != '}':
                    body.append(lines[i]); i += 1
                bodies.append((fname, rty, ptys, pnames, byval, body))
            i += 1; continue
        i += 1

    collect_nounwind(lines)
    collect_addr_taken(lines)
    collect_typeinfo_bases()
    collect_new_types(lines)
    # globals
    for gname, (ty, init, ext) in GLOBALS.items():
        cn = global_name(gname)
        if isinstance(ty, TFn): continue
        if ext:
            # external data (vtables, typeinfo): give it a dummy definition
            sz = 64 if not isinstance(ty, (TStruct, TArr)) or True else size_of(ty)
            try: sz = max(size_of(ty), 256)
            except Exception: sz = 256
            out_glob.append('char %s[%d];' % (cn, sz))
            continue
        out_glob.append('%s __attribute__((aligned(%d)));' % (cdecl(ty, cn), max(align_of(ty), 8) if size_of(ty) >= 8 else align_of(ty)))
        emit_init(out_init, ty, '(%s)' % cn, init.strip())
    for c in ctors:
        out_init.append('%s();' % global_name(c))

    # function prototypes
    for fname, (fty, defined) in FUNCS.items():
        if fname.startswith('@llvm.'): continue
        cn = global_name(fname)
        if cn in LIB_RENAME or fname in LIBC: continue
        args = ', '.join(ctype(a) for a in fty.args) or 'void'
        if fty.va: args = (args + ', ...') if fty.args else ''
        out_proto.append('%s %s(%s);' % (ctype(fty.ret), cn, args))

    for b in bodies:
        out_fn.extend(translate_fn(*b))
    out_fn.extend(emit_extern_stubs())

    emit_struct_defs(out_types)
    print('/* generated by ll2c.py from %s */' % src)
    print('#include <stdint.h>\n#include <string.h>\n#include <stdlib.h>')
    print('#include "ll2c_rt.h"')
    print('\n'.join('%s;' % cstruct_name(t) for t in NAMED.values()))
    print('\n'.join(out_types))
    print('\n'.join(EXTRA_TYPES + clone_types()))
    print('\n'.join(out_proto))
    print('\n'.join(out_glob))
    if HAS_EH[0]: print('\n'.join(emit_eh_runtime()))
    print('#define LL2C_CATCH_ALL_ID %d' % (len(TI_IDS) + 100))
    print('void ll2c_init_globals%s(void) {\n  ' % (('_' + PFX.strip('_')) if PFX else '') + '\n  '.join(out_init) + '\n}')
    print('\n'.join(out_fn))

LIB_RENAME = {}
PFX = ''    # --prefix P: all emitted global names become gP<name> (two TUs in one CBMC run: product harnesses)
import os
PTR_WORD_COPY = os.environ.get('LL2C_PTRWORD', '1') == '1'
NEW_MODE = os.environ.get('LL2C_NEW', 'words')
UNDEF_NONDET = os.environ.get('LL2C_UNDEF', '1') == '1'

# environment functions the TU only declares: contract stubs (listed in evidence assumptions)
def stub_body(name, fty):
    n = name[1:]
    ret = ctype(fty.ret)
    def retv(v='0'): return '' if isinstance(fty.ret, TVoid) else 'return (%s)%s;' % (ret, v)
    if n in ('_Znwm', '_Znam', '_ZnwmRKSt9nothrow_t', '_ZnamRKSt9nothrow_t', '_ZnwmSt11align_val_t'):
        return 'char* p = (char*)malloc(a0); LL2C_ASSUME(p != 0); return (%s)p;' % ret
    if n in ('_ZdlPv', '_ZdaPv', '_ZdlPvm', '_ZdaPvm', '_ZdlPvSt11align_val_t', '_ZdlPvmSt11align_val_t'):
        return 'free((char*)a0);'
    if n == '__cxa_guard_acquire': return 'return (%s)(*(char*)a0 == 0);' % ret
    if n == '__cxa_guard_release': return '*(char*)a0 = 1;'
    if n == '__cxa_guard_abort': return ''
    if n == '__cxa_atexit': return retv()
    if n == '__cxa_pure_virtual': return 'll2c_fail("pure virtual call");'
    if n.startswith('_ZSt') and '__throw_' in n: return 'll2c_fail("libstdc++ %s");' % n + retv()
    if n == '__assert_fail': return 'll2c_fail("assertion failure in library code (__assert_fail)");'
    if n.startswith('_ZN5boost15throw_exception'): return 'll2c_fail("boost::throw_exception");'
    if n in ('_ZNSt9exceptionD1Ev', '_ZNSt9exceptionD2Ev', '_ZNSt13runtime_errorD1Ev', '_ZNSt13runtime_errorD2Ev',
             '_ZNSt11logic_errorD2Ev', '_ZNSt9type_infoD2Ev', '_ZNSt9bad_allocD1Ev', '_ZNSt8bad_castD2Ev', '_ZNSt8bad_castD1Ev'): return ''
    if n in ('_ZNSt13runtime_errorC2EPKc', '_ZNSt13runtime_errorC1EPKc', '_ZNSt11logic_errorC2EPKc', '_ZNSt13runtime_errorC2ERKS_', '_ZNSt13runtime_errorC1ERKS_'): return ''
    if n in ('_ZNKSt13runtime_error4whatEv', '_ZNKSt9exception4whatEv', '_ZNKSt11logic_error4whatEv', '_ZNKSt8bad_cast4whatEv'): return 'return (%s)"what";' % ret
    if n in EXC_STUBS: return EXC_STUBS[n](ret, fty)
    return None

EXC_STUBS = {
    '__cxa_allocate_exception': lambda ret, fty: 'char* p = (char*)malloc(a0); LL2C_ASSUME(p != 0); return (%s)p;' % ret,
    '__cxa_free_exception': lambda ret, fty: 'free((char*)a0);',
    '__cxa_throw': lambda ret, fty: 'll2c_exc_obj = (char*)a0; ll2c_exc_type = (char*)a1; ll2c_exc_pending = 1;',
    '__cxa_begin_catch': lambda ret, fty: 'return (%s)a0;' % ret,
    '__cxa_end_catch': lambda ret, fty: '',
    '__cxa_rethrow': lambda ret, fty: 'll2c_exc_pending = 1;',
    '__clang_call_terminate': lambda ret, fty: 'll2c_fail("std::terminate (exception escaped a noexcept region)");',
    '_ZSt9terminatev': lambda ret, fty: 'll2c_fail("std::terminate");',
}

def emit_extern_stubs():
    out = []
    for fname, (fty, defined) in FUNCS.items():
        if defined or fname.startswith('@llvm.') or fname in LIBC or fname.startswith('@vf_'): continue
        if fname in ('@__gxx_personality_v0',): continue
        body = stub_body(fname, fty)
        if body is None:
            UNKNOWN_EXTERNS.append(fname)
            body = 'll2c_fail("call to unmodelled external %s");' % fname[1:]
            if not isinstance(fty.ret, TVoid):
                body += ' { %s r_; memset(&r_, 0, sizeof r_); return r_; }' % ctype(fty.ret)
        params = ', '.join('%s a%d' % (ctype(a), k) for k, a in enumerate(fty.args)) or 'void'
        if fty.va: params += ', ...'
        out.append('%s %s(%s) { %s }' % (ctype(fty.ret), global_name(fname), params, body))
    return out

UNKNOWN_EXTERNS = []

NEW_TYPES = {}   # size -> set of C struct names
def collect_new_types(lines):
    sizes = set(int(x) for x in re.findall(r'@_Znwm\(i64 (?:noundef )?(\d+)\)', '\n'.join(lines)))
    for nm, t in NAMED.items():
        try:
            if t.fields and not t.opaque and size_of(t) in sizes:
                NEW_TYPES.setdefault(size_of(t), set()).add(cstruct_name(t))
        except Exception: pass
    return
    newres = {}
    for ln in lines:
        m = re.match(r'\s+(%[-A-Za-z0-9_.$]+) = (?:tail )?call .*@_Znwm\(i64 (?:noundef )?(\d+)\)', ln)
        if m: newres[m.group(1)] = int(m.group(2)); continue
        if ln.startswith('define'): newres = {}; continue
        m = re.match(r'\s+%[-A-Za-z0-9_.$]+ = bitcast i8\* (%[-A-Za-z0-9_.$]+) to (.*)$', ln)
        if m and m.group(1) in newres:
            try:
                t, _ = parse_type(m.group(2))
            except Exception: continue
            if isinstance(t, TPtr) and isinstance(t.to, TStruct) and t.to.name is not None and t.to.fields is not None:
                try:
                    if size_of(t.to) == newres[m.group(1)]:
                        NEW_TYPES.setdefault(newres[m.group(1)], set()).add(cstruct_name(t.to))
                except Exception: pass

NOUNWIND_GROUPS = set()
FUNC_NOUNWIND = {}
HAS_EH = [False]
def collect_nounwind(lines):
    for ln in lines:
        m = re.match(r'attributes (#\d+) = \{(.*)\}', ln)
        if m and re.search(r'\bnounwind\b', m.group(2)): NOUNWIND_GROUPS.add(m.group(1))
    for ln in lines:
        if ln.startswith('define') or ln.startswith('declare'):
            am = re.search(r'(@"[^"]*"|@[-A-Za-z0-9_.$]+)\s*\(', ln)
            if not am: continue
            tail = ln[match_paren(ln, am.end()-1)+1:]
            gs = re.findall(r'#\d+', tail)
            FUNC_NOUNWIND[am.group(1)] = bool(re.search(r'\bnounwind\b', tail)) or any(g in NOUNWIND_GROUPS for g in gs)
        if 'landingpad' in ln or ' invoke ' in ln: HAS_EH[0] = True

TI_BASES = {}    # typeinfo symbol -> list of (transitive) base typeinfo symbols
TI_IDS = {}      # typeinfo symbol -> selector value of llvm.eh.typeid.for
def collect_typeinfo_bases():
    direct = {}
    for g, (ty, init, ext) in GLOBALS.items():
        if not g.startswith('@_ZTI'): continue
        TI_IDS.setdefault(g, len(TI_IDS) + 1)
        direct[g] = [x for x in re.findall(r'@_ZTI[A-Za-z0-9_]+', init or '') if x != g]
    for g in direct:
        seen = []; todo = list(direct[g])
        while todo:
            b = todo.pop(0)
            if b in seen: continue
            seen.append(b); todo += direct.get(b, [])
            TI_IDS.setdefault(b, len(TI_IDS) + 1)
        TI_BASES[g] = seen

def emit_eh_runtime():
    out = ['__attribute__((weak)) char* ll2c_exc_obj; __attribute__((weak)) char* ll2c_exc_type;' if PFX else 'char* ll2c_exc_obj; char* ll2c_exc_type;',
           '/* does an exception of dynamic type t match a catch clause for type c (0 = catch all)? */',
           'static int ll2c_eh_match(char* t, char* c) {', '  if (c == 0 || t == c) return 1;']
    for g, bases in TI_BASES.items():
        if GLOBALS[g][2] or not bases: continue
        out.append('  if (t == (char*)&%s) return %s;' % (global_name(g), ' || '.join('c == (char*)&%s' % global_name(b) for b in bases)))
    out += ['  return 0;', '}']
    return out

def dummy_return(rty):
    if isinstance(rty, TVoid): return 'return;'
    if isinstance(rty, TStruct): return '{ %s r_; memset(&r_, 0, sizeof r_); return r_; }' % ctype(rty)
    return 'return (%s)0;' % ctype(rty)

CUR_FN = {'rty': None, 'nounwind': True}

def collect_addr_taken(lines):
    fnames = sorted(FUNCS.keys(), key=len, reverse=True)
    tok = re.compile(r'@"[^"]*"|@[-A-Za-z0-9_.$]+')
    for ln in lines:
        if ln.startswith('declare') or ln.startswith('define') or ln.startswith('!') or ln.startswith('attributes'): continue
        if '@__cxa_atexit' in ln: continue   # destructors registered for exit are never called in the harness
        for m in tok.finditer(ln):
            f = m.group(0)
            if f not in FUNCS or f.startswith('@llvm.'): continue
            # direct callee?  '... call/invoke <attrs> <type> @f('
            pre = ln[:m.start()]
            post = ln[m.end():]
            if post.startswith('(') and re.search(r'\b(call|invoke)\b', pre) and not re.search(r'\b(call|invoke)\b.*\(', pre.split('=')[-1] if False else pre[pre.rfind('call') if 'call' in pre else pre.rfind('invoke'):]):
                continue
            fty = FUNCS[f][0]
            ADDR_TAKEN.setdefault(tstr(fty), set()).add(f)
            ADDR_TAKEN_ABI.setdefault(abi_key(fty), set()).add(f)
            # bitcast alias: bitcast (<T1>* @f to <T2>*)
            bm = re.search(r'bitcast\s*\(\s*$', pre[:pre.rfind(' ')+1][-0:] ) if False else None
            am = re.match(r'\s+to\s+', post)
            if am:
                try:
                    t2, _ = parse_type(post, am.end())
                    if isinstance(t2, TPtr) and isinstance(t2.to, TFn):
                        ADDR_TAKEN.setdefault(tstr(t2.to), set()).add(f)
                except Exception: pass

def emit_init(out, ty, lval, init):
    """emit stores initialising lvalue (C expr of declared type) from LLVM constant text"""
    init = init.strip()
    init = re.sub(r',\s*(comdat|align|section|!dbg).*$', '', init).strip()
    if init.startswith('zeroinitializer') or init.startswith('undef') or init == '':
        return
    if isinstance(ty, TArr):
        if init.startswith('c"'):
            j = init.rindex('"'); raw = init[2:j]
            bs = []; k = 0
            while k < len(raw):
                if raw[k] == '\\': bs.append(int(raw[k+1:k+3], 16)); k += 3
                else: bs.append(ord(raw[k])); k += 1
            out.append('{ static const unsigned char t_[] = {%s}; memcpy(%s, t_, %d); }' % (','.join(map(str, bs)), lval, len(bs)))
            return
        assert init[0] == '[', init[:40]
        j = init.rindex(']')
        parts = split_top(init[1:j])
        for k, p in enumerate(parts):
            ety, q = parse_type(p)
            emit_init(out, ety, '%s[%d]' % (lval, k), p[q:])
        return
    if isinstance(ty, TStruct):
        if init[0] == '<': init = init[1:];
        assert init[0] == '{', init[:40]
        j = init.rindex('}')
        parts = split_top(init[1:j])
        for k, p in enumerate(parts):
            fty, q = parse_type(p)
            emit_init(out, fty, '%s.f%d' % (lval, k), p[q:])
        return
    v, _ = parse_value(ty, init, 0)
    out.append('%s = %s;' % (lval, v.c))

# ---------------------------------------------------------------- function translation
BINOPS = {'add':'+','sub':'-','mul':'*','and':'&','or':'|','xor':'^','shl':'<<','lshr':'>>','udiv':'/','urem':'%'}
ICMP = {'eq':'==','ne':'!=','ugt':'>','uge':'>=','ult':'<','ule':'<=','sgt':'>','sge':'>=','slt':'<','sle':'<='}

def translate_fn(fname, rty, ptys, pnames, byval, body):
    CUR_FN['rty'] = rty; CUR_FN['nounwind'] = FUNC_NOUNWIND.get(fname, False)
    for k in [k for k in PTRINFO if k.startswith('v_')]: del PTRINFO[k]
    PTRINT.clear()
    PTRISH.clear()
    HEAP_LAY.clear()
    txt = '\n'.join(body)
    CUR_BODY[0] = txt
    for m_ in re.finditer(r'inttoptr i64 (%[-A-Za-z0-9_.$]+) to', txt): PTRISH.add(local_name(m_.group(1)))
    for m_ in re.finditer(r'(%[-A-Za-z0-9_.$]+) = and i64 (%[-A-Za-z0-9_.$]+), -2', txt):
        if local_name(m_.group(1)) in PTRISH: PTRISH.add(local_name(m_.group(2)))
    cn = global_name(fname)
    out = []
    decls = collections.OrderedDict()   # cname -> ctype decl
    code = []
    # split into blocks
    blocks = collections.OrderedDict(); cur = 'entry'; blocks[cur] = []
    first = True; pending = None
    # entry block label: number after params if unnamed
    for ln in body:
        m = re.match(r'^([-A-Za-z0-9_.$]+|"[^"]*"):', ln)
        if m:
            cur = m.group(1); blocks[cur] = []; continue
        s = ln.strip()
        if not s or s.startswith(';'): continue
        if pending is not None:
            pending += ' ' + s
            if s == ']': blocks[cur].append(pending); pending = None
            continue
        if s.startswith('switch') and s.endswith('['):
            pending = s; continue
        if (s.startswith('to label ') or s.startswith('catch ') or s == 'cleanup' or s.startswith('filter ')) and blocks[cur]:
            blocks[cur][-1] += ' ' + s; continue      # continuation lines of invoke / landingpad
        blocks[cur].append(s)
    # name of entry block for phis: implicit numbering
    unnamed = [p for p in pnames if p and re.fullmatch(r'%\d+', p)]
    entry_label = None
    if pnames and all(p and re.fullmatch(r'%\d+', p) for p in pnames): entry_label = str(len(pnames))
    elif not pnames: entry_label = '0'
    if entry_label is None:
        cnt = sum(1 for p in pnames if p and re.fullmatch(r'%\d+', p)); entry_label = str(cnt)
    def lab(l): return 'L_' + mangle(l.lstrip('%'))
    # collect phis per block: block -> list of (dest Val, [(valstr, predlabel)])
    phis = {}
    for bl, ins in blocks.items():
        for s in ins:
            m = re.match(r'(%"[^"]*"|%[-A-Za-z0-9_.$]+) = phi (.*)$', s)
            if not m: break
            ty, p = parse_type(m.group(2))
            pairs = re.findall(r'\[\s*(.*?),\s*(%"[^"]*"|%[-A-Za-z0-9_.$]+)\s*\]', m.group(2)[p:])
            phis.setdefault(bl, []).append((local_name(m.group(1)), ty, pairs))
            decls[local_name(m.group(1))] = ctype(ty)
            decls[local_name(m.group(1)) + '_phi'] = ctype(ty)
    def phi_moves(frm, to):
        mv = []
        for dst, ty, pairs in phis.get(to, []):
            for vs, pl in pairs:
                pl = pl.lstrip('%').strip('"')
                if pl == frm or (frm == 'entry' and pl == entry_label):
                    v, _ = parse_value(ty, vs.strip(), 0)
                    mv.append('%s_phi = %s;' % (dst, v.c))
                    break
            else:
                raise ValueError('phi: no incoming for %s from %s in %s' % (dst, frm, fname))
        mv += ['%s = %s_phi;' % (dst, dst) for dst, ty, pairs in phis.get(to, [])]
        return ' '.join(mv)
    def goto(frm, to):
        to = to.lstrip('%').strip('"')
        return '{ %s goto %s; }' % (phi_moves(frm, to), lab(to))

    params = []
    for k, (pt, pn) in enumerate(zip(ptys, pnames)):
        nm = local_name(pn) if pn else 'unused_%d' % k
        params.append('%s %s' % (ctype(pt), nm))
    for k, bt in enumerate(byval):
        if bt is not None:
            nm = local_name(pnames[k])
            decls[nm + '_bv'] = None
            code.append('%s; memcpy(&%s_bv, %s, %d); %s = (%s)&%s_bv;' % (cdecl(bt, nm+'_bv'), nm, nm, size_of(bt), nm, ctype(TPtr(bt)), nm))
    for bl, ins in blocks.items():
        code.append('%s: ;' % lab(bl if bl != 'entry' else 'entry'))
        for s in ins:
            code.extend(translate_ins(s, bl, decls, goto, fname))
    va = FUNCS[fname][0].va
    out.append('%s %s(%s%s) {' % (ctype(rty), cn, ', '.join(params) or ('void' if not va else ''), ', ...' if (va and params) else ''))
    for n, t in decls.items():
        if t is not None: out.append('  %s %s;' % (t, n))
    out.extend('  ' + c for c in code)
    out.append('}')
    return out

def translate_ins(s, bl, decls, goto, fname):
    s = re.sub(r',\s*!(?:[A-Za-z_.]+) ![0-9]+', '', s)      # strip metadata
    s = re.sub(r',\s*!srcloc.*$', '', s)
    m = re.match(r'(%"[^"]*"|%[-A-Za-z0-9_.$]+) = (.*)$', s)
    dst = None
    if m: dst = local_name(m.group(1)); s = m.group(2)
    def setd(ty, expr):
        decls[dst] = ctype(ty)
        return ['%s = %s;' % (dst, expr)]
    op = s.split(None, 1)[0]
    rest = s[len(op):].strip()
    if op == 'phi': return []
    if op == 'ret':
        if rest == 'void': return ['return;']
        v, _ = parse_typed_value(rest); return ['return %s;' % v.c]
    if op == 'br':
        m = re.match(r'label (%\S+)$', rest)
        if m: return [goto(bl, m.group(1))]
        m = re.match(r'i1 (.*), label (%"[^"]*"|%[-A-Za-z0-9_.$]+), label (%"[^"]*"|%[-A-Za-z0-9_.$]+)$', rest)
        c, _ = parse_value(TInt(1), m.group(1))
        return ['if (%s & 1) %s else %s' % (c.c, goto(bl, m.group(2)), goto(bl, m.group(3)))]
    if op == 'switch':
        m = re.match(r'(.*?), label (%\S+) \[(.*)\]$', rest)
        v, _ = parse_typed_value(m.group(1))
        res = []
        for cm in re.finditer(r'(i\d+) (-?\d+), label (%"[^"]*"|%[-A-Za-z0-9_.$]+)', m.group(3)):
            cv, _ = parse_value(v.ty, cm.group(2))
            res.append('if (%s == %s) %s' % (v.c, cv.c, goto(bl, cm.group(3))))
        res.append(goto(bl, m.group(2)))
        return res
    if op == 'unreachable': return ['ll2c_unreachable();']
    if op == 'landingpad':
        ty, p = parse_type(rest)
        clauses = re.findall(r'\b(cleanup)\b|catch i8\* (null|bitcast \([^)]*\)|@"[^"]*"|@[-A-Za-z0-9_.$]+)', rest)
        decls[dst] = ctype(ty)
        code = ['ll2c_exc_pending = 0; %s.f0 = ll2c_exc_obj; %s.f1 = 0;' % (dst, dst)]
        has_cleanup = any(c[0] for c in clauses)
        chain = []
        for c in clauses:
            if c[0]: continue
            if c[1] == 'null': chain.append(('(char*)0', 'LL2C_CATCH_ALL_ID'))
            else:
                tim = re.search(r'@_ZTI[A-Za-z0-9_]+', c[1])
                ti = tim.group(0); TI_IDS.setdefault(ti, len(TI_IDS) + 1)
                chain.append(('(char*)&%s' % global_name(ti), str(TI_IDS[ti])))
        sel = ' else '.join('if (ll2c_eh_match(ll2c_exc_type, %s)) %s.f1 = %s;' % (c, dst, i) for c, i in chain)
        if chain:
            code.append(sel + (' else { %s }' % ('' if has_cleanup else 'll2c_exc_pending = 1; ' + dummy_return(CUR_FN['rty']))))
        return code
    if op == 'resume':
        return ['ll2c_exc_pending = 1; ' + dummy_return(CUR_FN['rty'])]
    if op == 'alloca':
        ty, p = parse_type(rest)
        m = re.search(r'align (\d+)', rest)
        al = int(m.group(1)) if m else align_of(ty)
        decls[dst + '_mem'] = None
        decls[dst] = ctype(TPtr(ty))
        return ['%s __attribute__((aligned(%d))); %s = (%s)&%s_mem;' % (cdecl(ty, dst + '_mem'), al, dst, ctype(TPtr(ty)), dst)]
    if op == 'load':
        rest = re.sub(r'^(atomic|volatile)\s+', '', rest); rest = re.sub(r'^(atomic|volatile)\s+', '', rest)
        ty, p = parse_type(rest)
        assert rest[p] == ','
        pv, q = parse_typed_value(rest, p+1)
        if isinstance(ty, TArr): raise NotImplementedError('array load')
        return setd(ty, '*(%s*)%s' % (ctype(ty), pv.c))
    if op == 'store':
        rest = re.sub(r'^(atomic|volatile)\s+', '', rest); rest = re.sub(r'^(atomic|volatile)\s+', '', rest)
        v, p = parse_typed_value(rest)
        assert rest[p] == ','
        pv, q = parse_typed_value(rest, p+1)
        return ['*(%s*)%s = %s;' % (ctype(v.ty), pv.c, v.c)]
    if op == 'getelementptr':
        rest = re.sub(r'^inbounds\s+', '', rest)
        ge, gt, info = gep_expr(rest)
        if info: PTRINFO[dst] = info
        else: PTRINFO.pop(dst, None)
        return setd(TPtr(gt), '((%s)%s)' % (ctype(TPtr(gt)), ge))
    if op in BINOPS or op in ('sdiv', 'srem', 'ashr'):
        rest = re.sub(r'^((nuw|nsw|exact)\s+)+', '', rest)
        ty, p = parse_type(rest)
        a, p = parse_value(ty, rest, p); assert rest[p] == ','
        b, p = parse_value(ty, rest, p+1)
        n = ty.n
        PTRINT.pop(dst, None)
        if n == 64 and op in ('and', 'or') and not (a.c in PTRINT or b.c in PTRINT):
            # value of unknown origin that this function later turns into a pointer (member-function pointer
            # loaded from a functor, tagged vtable pointer): treat it as a pointer value for the tag-bit idioms
            for pv_ in (a, b):
                if pv_.c in PTRISH: PTRINT[pv_.c] = '((char*)(uintptr_t)%s)' % pv_.c
        if n == 64 and op in ('and', 'or') and (a.c in PTRINT or b.c in PTRINT):
            # tag-bit manipulation of a pointer value (boost::function vtable pointer, member-function pointers):
            # keep it pointer arithmetic so that CBMC's constant propagation survives (assumes even object base addresses)
            pv, cv = (a, b) if a.c in PTRINT else (b, a)
            k = const_idx(cv)
            src = PTRINT[pv.c]
            if op == 'and' and k == 1:
                return setd(ty, 'LL2C_PTR_LOWBIT(%s)' % src)
            if op == 'and' and k == -2:
                PTRINT[dst] = 'LL2C_PTR_CLEARLOW(%s)' % src
                return setd(ty, '((uint64_t)(uintptr_t)LL2C_PTR_CLEARLOW(%s))' % src)
            if op == 'or' and k == 1:
                PTRINT[dst] = 'LL2C_PTR_SETLOW(%s)' % src
                return setd(ty, '((uint64_t)(uintptr_t)LL2C_PTR_SETLOW(%s))' % src)
        if op in BINOPS:
            e = '(%s)(%s %s %s)' % (cint(n), a.c, BINOPS[op], b.c)
        elif op == 'ashr':
            e = '(%s)((%s)%s >> %s)' % (cint(n), csint(n), a.c, b.c)
        else:
            e = '(%s)((%s)%s %s (%s)%s)' % (cint(n), csint(n), a.c, '/' if op == 'sdiv' else '%', csint(n), b.c)
        if n not in (8,16,32,64,128): e = '(%s)((%s) & %d)' % (cint(n), e, (1 << n)-1)
        return setd(ty, e)
    if op == 'icmp':
        pred, rest2 = rest.split(None, 1)
        ty, p = parse_type(rest2)
        a, p = parse_value(ty, rest2, p); assert rest2[p] == ','
        b, p = parse_value(ty, rest2, p+1)
        if is_ptr(ty):
            ac, bc = '(uintptr_t)' + a.c, '(uintptr_t)' + b.c
            if pred in ('eq', 'ne'): ac, bc = '(char*)' + a.c, '(char*)' + b.c
        elif pred.startswith('s'):
            ac, bc = '(%s)%s' % (csint(ty.n), a.c), '(%s)%s' % (csint(ty.n), b.c)
        else:
            ac, bc = a.c, b.c
            if ty.n not in (8,16,32,64): ac, bc = '(%s & %d)' % (ac, (1<<ty.n)-1), '(%s & %d)' % (bc, (1<<ty.n)-1)
        return setd(TInt(1), '(uint8_t)(%s %s %s)' % (ac, ICMP[pred], bc))
    if op in CAST_OPS:
        k = rest.rindex(' to ')
        sv, _ = parse_typed_value(rest[:k])
        dty, _ = parse_type(rest[k+4:])
        if op == 'ptrtoint' and dty.n == 64: PTRINT[dst] = sv.c
        else: PTRINT.pop(dst, None)
        if op == 'inttoptr' and sv.c in PTRINT:
            PTRINFO.pop(dst, None)
            return setd(dty, '((%s)%s)' % (ctype(dty), PTRINT[sv.c]))
        if op == 'bitcast' and sv.c in PTRINFO: PTRINFO[dst] = PTRINFO[sv.c]
        elif op == 'bitcast' and is_ptr(sv.ty) and isinstance(sv.ty.to, (TStruct, TArr)) and not (isinstance(sv.ty.to, TStruct) and (sv.ty.to.fields is None or sv.ty.to.opaque)):
            PTRINFO[dst] = (sv.c, sv.ty.to, 0)
        else: PTRINFO.pop(dst, None)
        return setd(dty, cast_expr(op, sv, dty))
    if op == 'select':
        parts = split_top(rest)
        c, _ = parse_typed_value(parts[0]); a, _ = parse_typed_value(parts[1]); b, _ = parse_typed_value(parts[2])
        return setd(a.ty, '((%s & 1) ? %s : %s)' % (c.c, a.c, b.c))
    if op == 'extractvalue':
        parts = split_top(rest)
        agg, _ = parse_typed_value(parts[0])
        t = agg.ty; e = agg.c
        for ix in parts[1:]:
            k = int(ix); e += '.f%d' % k; t = t.fields[k]
        return setd(t, e)
    if op == 'insertvalue':
        parts = split_top(rest)
        agg, _ = parse_typed_value(parts[0]); v, _ = parse_typed_value(parts[1])
        path = ''.join('.f%d' % int(ix) for ix in parts[2:])
        decls[dst] = ctype(agg.ty)
        return ['%s = %s; %s%s = %s;' % (dst, agg.c, dst, path, v.c)]
    if op in ('call', 'tail', 'musttail', 'notail', 'invoke'):
        return translate_call(s, dst, decls, goto, bl)
    if op == 'fence': return []
    raise NotImplementedError('%s: %s' % (fname, s))

INTRINSIC_IGNORE = ('llvm.lifetime.', 'llvm.dbg.', 'llvm.experimental.noalias.scope.decl', 'llvm.assume', 'llvm.invariant.')

def translate_call(s, dst, decls, goto, bl):
    s = re.sub(r'^(tail|musttail|notail)\s+', '', s)
    is_invoke = s.startswith('invoke')
    s = re.sub(r'^(call|invoke)\s+', '', s)
    s = re.sub(r'^(fastcc|ccc|coldcc)\s+', '', s)
    i = strip_attrs(s, 0)
    rty, i = parse_type(s, i)     # may be full fn type for varargs: 'i32 (i8*, ...)'
    fty = None
    if isinstance(rty, TFn): fty = rty; rty = fty.ret
    elif isinstance(rty, TPtr) and isinstance(rty.to, TFn) and False: pass
    i = skipws(s, i)
    # callee
    m = re.compile(r'@"[^"]*"|@[-A-Za-z0-9_.$]+|%"[^"]*"|%[-A-Za-z0-9_.$]+').match(s, i)
    callee = None
    if m:
        callee = m.group(0); i = m.end()
    else:
        # constant expression callee, e.g. bitcast (...)
        cv, i = parse_value(TPtr(TInt(8)), s, i); callee = ('expr', cv.c)
    i = skipws(s, i)
    if isinstance(callee, str) and callee.startswith('@llvm.') and any(callee[1:].startswith(p) for p in INTRINSIC_IGNORE):
        return []
    j = match_paren(s, i)
    args = []
    for a in split_top(s[i+1:j]):
        v, _ = parse_typed_value(a); args.append(v)
    tail = s[j+1:]
    res = []
    name = callee if isinstance(callee, str) else None
    if name and name.startswith('@llvm.'):
        n = name[1:]
        if any(n.startswith(p) for p in INTRINSIC_IGNORE): call = None
        elif n.startswith('llvm.memset') and const_idx(args[2]) is not None and const_idx(args[1]) is not None and args[0].c in PTRINFO \
                and typed_memset(PTRINFO[args[0].c], const_idx(args[2]), const_idx(args[1]) & 255) is not None:
            return ['{ %s }' % ' '.join(typed_memset(PTRINFO[args[0].c], const_idx(args[2]), const_idx(args[1]) & 255))]
        elif n.startswith('llvm.memcpy') and const_idx(args[2]) is not None and args[0].c in PTRINFO and args[1].c in PTRINFO \
                and typed_memcpy(PTRINFO[args[0].c], PTRINFO[args[1].c], const_idx(args[2])) is not None:
            return ['{ %s }' % ' '.join(typed_memcpy(PTRINFO[args[0].c], PTRINFO[args[1].c], const_idx(args[2])))]
        elif n.startswith('llvm.memcpy') and args[0].c in HEAP_LAY and const_idx(args[2]) == HEAP_LAY[args[0].c][1]:
            # whole-object copy into a clone-site allocation: one struct assignment, field by field for CBMC
            lay = HEAP_LAY[args[0].c][0]
            return ['*(%s*)%s = *(%s*)%s;' % (lay, args[0].c, lay, args[1].c)]
        elif (n.startswith('llvm.memcpy') or n.startswith('llvm.memmove')) and re.fullmatch(r'\(\(uint64_t\)(\d+)ULL\)', args[2].c) and int(re.fullmatch(r'\(\(uint64_t\)(\d+)ULL\)', args[2].c).group(1)) <= 128:
            nbytes = int(re.fullmatch(r'\(\(uint64_t\)(\d+)ULL\)', args[2].c).group(1))
            chunks = []; off = 0
            while off < nbytes:
                for w in (8, 4, 2, 1):
                    if nbytes - off >= w: chunks.append((off, w)); off += w; break
            # 8-byte words are copied as pointer-typed values so that pointers stored in untyped
            # (heap / byte-array) objects keep their provenance for CBMC's constant propagation
            def cty(w): return 'char*' if (w == 8 and PTR_WORD_COPY) else 'uint%d_t' % (w*8)
            ld = ' '.join('%s t%d_ = *(%s*)((char*)%s + %d);' % (cty(w), k, cty(w), args[1].c, o) for k, (o, w) in enumerate(chunks))
            st = ' '.join('*(%s*)((char*)%s + %d) = t%d_;' % (cty(w), args[0].c, o, k) for k, (o, w) in enumerate(chunks))
            return ['{ %s %s }' % (ld, st)]
        elif n.startswith('llvm.memcpy'): call = 'memcpy((char*)%s, (char*)%s, %s)' % (args[0].c, args[1].c, args[2].c)
        elif n.startswith('llvm.memmove'): call = 'memmove((char*)%s, (char*)%s, %s)' % (args[0].c, args[1].c, args[2].c)
        elif n.startswith('llvm.memset'): call = 'memset((char*)%s, %s, %s)' % (args[0].c, args[1].c, args[2].c)
        elif n.startswith('llvm.trap'): call = 'll2c_trap()'
        elif n.startswith('llvm.eh.typeid.for'):
            tim = re.search(r'g(?:%s|_)(_ZTI[A-Za-z0-9_]+)' % re.escape(PFX or '_'), args[0].c)
            ti = '@' + tim.group(1); TI_IDS.setdefault(ti, len(TI_IDS) + 1)
            call = '((uint32_t)%d)' % TI_IDS[ti]
        elif n.startswith('llvm.expect'): call = args[0].c
        elif re.match(r'llvm\.(umax|umin|smax|smin)\.', n):
            k = n.split('.')[1]; t = args[0].ty.n
            a, b = args[0].c, args[1].c
            if k[0] == 's': a, b = '(%s)%s' % (csint(t), a), '(%s)%s' % (csint(t), b)
            call = '(%s)((%s %s %s) ? %s : %s)' % (cint(t), a, '>' if k.endswith('max') else '<', b, args[0].c, args[1].c)
        else: raise NotImplementedError('intrinsic ' + n)
    else:
        if name == '@_Znwm' and dst:
            mm = re.fullmatch(r'\(\(uint64_t\)(\d+)ULL\)', args[0].c)
            if mm and NEW_MODE == 'words' and 0 < int(mm.group(1)) <= 512:
                lay = alloc_layout(dst, int(mm.group(1))) or clone_layout(dst, int(mm.group(1)))
                if lay:
                    decls[dst] = 'char*'
                    return ['%s = (char*)malloc(sizeof(%s)); LL2C_ASSUME(%s != 0);' % (dst, lay, dst)]
            if mm and NEW_MODE == 'words' and int(mm.group(1)) % 8 == 0 and 0 < int(mm.group(1)) <= 512:
                # heap objects the IR only touches through raw offsets (boost::bind functors, any holders): allocate them
                # as an array of pointer-sized words, so that CBMC keeps one SSA symbol per word and a pointer stored in one
                # word stays a constant even when a neighbouring word holds a symbolic payload.  Same size, same C semantics.
                decls[dst] = 'char*'
                return ['%s = (char*)malloc(sizeof(char*[%d])); LL2C_ASSUME(%s != 0);' % (dst, int(mm.group(1)) // 8, dst)]
            if mm and len(NEW_TYPES.get(int(mm.group(1)), ())) == 1:
                decls[dst] = 'char*'
                return ['%s = (char*)malloc(sizeof(%s)); LL2C_ASSUME(%s != 0);' % (dst, list(NEW_TYPES[int(mm.group(1))])[0], dst)]
        if name and name.startswith('@'):
            f = global_name(name)
            ft = FUNCS.get(name)
            if ft and not fty and len(ft[0].args) == len(args) and not ft[0].va:
                call = '%s(%s)' % (f, ', '.join(a.c for a in args))
            else:
                sig = '%s(*)(%s)' % (ctype(rty), ', '.join(ctype(a.ty) for a in args) or 'void')
                call = '((%s)%s)(%s)' % (sig, f, ', '.join(a.c for a in args))
        else:
            fv = local_name(name) if name else callee[1]
            cty = fty if fty else TFn(rty, [a.ty for a in args], False)
            cands = sorted(ADDR_TAKEN.get(tstr(cty), ()))
            if not cands:   # e.g. virtual calls: slot type differs from the implementation's 'this' type
                cands = sorted(ADDR_TAKEN_ABI.get(abi_key(cty), ()))
            sig = '%s(*)(%s)' % (ctype(rty), ', '.join(ctype(a.ty) for a in args) or 'void')
            res_assign = (dst + ' = ') if (dst and not isinstance(rty, TVoid)) else ''
            if dst and not isinstance(rty, TVoid): decls[dst] = ctype(rty)
            parts = []
            for f in cands:
                parts.append('if ((char*)%s == (char*)&%s) { %s((%s)&%s)(%s); }' % (fv, global_name(f), res_assign, sig, global_name(f), ', '.join(a.c for a in args)))
            parts.append('{ ll2c_bad_indirect_call(); }')
            res.append(' else '.join(parts))
            call = None
    if call is not None:
        if dst and not isinstance(rty, TVoid):
            decls[dst] = ctype(rty); res.append('%s = %s;' % (dst, call))
        else: res.append('%s;' % call)
    if is_invoke:
        m = re.search(r'to label (%"[^"]*"|%[-A-Za-z0-9_.$]+) unwind label (%"[^"]*"|%[-A-Za-z0-9_.$]+)', tail)
        res.append('if (ll2c_exc_pending) %s else %s' % (goto(bl, m.group(2)), goto(bl, m.group(1))))
    elif HAS_EH[0] and not CUR_FN['nounwind'] and not (name and name.startswith('@llvm.')):
        callee_nounwind = (name is not None and name.startswith('@') and FUNC_NOUNWIND.get(name, False)) or \
                          any(g in NOUNWIND_GROUPS for g in re.findall(r'#\d+', tail)) or bool(re.search(r'\bnounwind\b', tail))
        if not callee_nounwind or name == '@__cxa_throw':
            # an exception raised in the callee propagates through this (non-invoke) call site
            res.append('if (ll2c_exc_pending) { %s }' % dummy_return(CUR_FN['rty']))
    return res

if __name__ == '__main__':
    main()

# usage: dev_one.py <prop> <unit-substring> [tier]   : run only the units of a check whose name contains the substring
import sys, os
os.environ.setdefault('VF_WORK', '/dev/shm/vfdev1')
from vf import props
pid = sys.argv[1]; sub = sys.argv[2]; tier = sys.argv[3] if len(sys.argv) > 3 else 'quick'
chk = props.PROPS[pid](tier, 1)
chk.units = [u for u in chk.units if sub in u.name]
chk.jobs = [j for j in chk.jobs if sub in j.unit.name]
chk.evidence_path = '/tmp/dev_one_evidence.json'
chk.prepare(); chk.solve(); rc = chk.finish()
print('rc', rc)

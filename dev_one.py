import sys
from vf import model, emit, catalog, runner
name = sys.argv[1]; be = int(sys.argv[2]); hi = int(sys.argv[3])
prog = catalog.CATALOG[name]()
steps = [('ev', e) for e in prog.events]
confs, edges = model.bfs(prog, [('start',)] + steps, max_depth=5)
confs = [c for c in confs if c[0].started]
cpp = emit.emit_cpp(prog)
h, index = emit.emit_harness(prog, confs, steps, 'DEV')
u = runner.Unit(name, be, cpp, h, index); u.nevents = len(prog.events)
u.lower()
import subprocess
inc = ['-I/verif/harness', '-I/verif/tools']
cmd = ['cbmc', u.genc, u.hc, '/verif/harness/vf_harness.c', '/verif/tools/rt.c', '-DGEN', '--function', 'harness_p%d' % hi, '--unwind', '6', '--trace'] + runner.CBMC_FLAGS + inc
print(subprocess.run(cmd, stdout=subprocess.PIPE, stderr=subprocess.STDOUT).stdout.decode())

// a behaviour throws during the entry of a submachine that stays the active state: the submachine's m_event_processing flag stays set
#include <cstdio>
#include <stdexcept>
#include <boost/msm/front/state_machine_def.hpp>
#include <boost/msm/front/functor_row.hpp>
#ifdef MP11
#include <boost/msm/backmp11/state_machine.hpp>
#define TT(...) boost::mp11::mp_list<__VA_ARGS__>
#else
#include <boost/msm/back/state_machine.hpp>
#include <boost/mpl/vector.hpp>
#define TT(...) boost::mpl::vector<__VA_ARGS__>
#endif
namespace msm = boost::msm; using namespace msm::front;
struct reset {}; struct ping {};
static int throw_once = 0, pings = 0, caught = 0, notrans = 0;
struct Ping { template <class E, class F, class S, class T> void operator()(E const&, F&, S&, T&) { ++pings; } };
struct Sub_ : state_machine_def<Sub_> {
  struct S1 : state<> { template <class E, class F> void on_entry(E const&, F&) { if (throw_once) { throw_once = 0; throw std::runtime_error("boom"); } } };
  typedef S1 initial_state;
  using transition_table = TT(Row<S1, ping, none, Ping, none>);
  template <class F, class E> void no_transition(E const&, F&, int) { ++notrans; }
};
#ifdef MP11
typedef msm::backmp11::state_machine<Sub_> Sub;
#else
typedef msm::back::state_machine<Sub_> Sub;
#endif
struct Top_ : state_machine_def<Top_> {
  typedef Sub initial_state;
  using transition_table = TT(Row<Sub, reset, Sub, none, none>);
  template <class F, class E> void exception_caught(E const&, F&, std::exception&) { ++caught; }
  template <class F, class E> void no_transition(E const&, F&, int) { ++notrans; }
};
#ifdef MP11
typedef msm::backmp11::state_machine<Top_> Top;
#else
typedef msm::back::state_machine<Top_> Top;
#endif
int main() {
  Top t; t.start();
  t.process_event(ping()); std::printf("before: pings=%d\n", pings);
  throw_once = 1; t.process_event(reset());           // S1::on_entry throws during the re-entry of Sub
  std::printf("after the throwing re-entry: caught=%d\n", caught);
  int before = pings;
  for (int i = 0; i < 3; ++i) t.process_event(ping());
  std::printf("three more pings: handled %d of 3, no_transition=%d\n", pings - before, notrans);
  return (pings - before == 3 || notrans == 3) ? 0 : 1;
}

// backmp11: process_completion_transition returns an uninitialised process_result when the completion transition throws
#include <boost/msm/backmp11/state_machine.hpp>
#include <boost/msm/front/state_machine_def.hpp>
#include <boost/msm/front/functor_row.hpp>
#include <cstdio>
#include <stdexcept>
namespace msm = boost::msm; namespace mp11 = boost::mp11; using namespace msm::front;
struct e1 {}; struct e2 {};
static int n_caught = 0, n_e2 = 0;
struct Boom { template <class E, class F, class S, class T> void operator()(E const&, F&, S&, T&) { throw std::runtime_error("boom"); } };
struct Cnt { template <class E, class F, class S, class T> void operator()(E const&, F&, S&, T&) { ++n_e2; } };
struct M_ : state_machine_def<M_> {
  struct A : state<> {}; struct B : state<> {}; struct C : state<> {};
  typedef A initial_state;
  using transition_table = mp11::mp_list<
      Row<A, e1, B, none, none>,
      Row<B, none, C, Boom, none>,      // completion transition whose action throws
      Row<B, e2, none, Cnt, none>>;
  template <class F, class E> void exception_caught(E const&, F&, std::exception&) { ++n_caught; }
  template <class F, class E> void no_transition(E const&, F&, int) {}
};
typedef msm::backmp11::state_machine<M_> M;
int main() {
  M m; m.start();
  m.enqueue_event(e1()); m.enqueue_event(e2());
  size_t a = m.process_event_pool(1);   // e1: A -> B, the completion event of B is stored
  size_t b = m.process_event_pool(1);   // at most ONE event; which one and what is counted depends on the stored results
  std::printf("first=%zu second=%zu caught=%d e2_processed=%d\n", a, b, n_caught, n_e2);
  return 0;
}

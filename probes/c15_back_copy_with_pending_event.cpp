#include <boost/msm/back/state_machine.hpp>
#include <boost/msm/front/state_machine_def.hpp>
#include <boost/msm/front/functor_row.hpp>
#include <cstdio>
namespace msm = boost::msm; namespace mpl = boost::mpl; using namespace msm::front;
struct e0 {};
struct M_ : state_machine_def<M_> {
  struct A : state<> {}; struct B : state<> {};
  typedef A initial_state;
  struct transition_table : mpl::vector<Row<A, e0, B, none, none> > {};
};
typedef msm::back::state_machine<M_> M;
int main(){ M a; a.start(); a.enqueue_event(e0()); M const& ca = a; M b(ca); printf("before: a=%d b=%d qa=%zu qb=%zu\n", a.current_state()[0], b.current_state()[0], a.get_message_queue_size(), b.get_message_queue_size()); b.execute_queued_events(); printf("after draining the copy: a=%d b=%d qa=%zu qb=%zu\n", a.current_state()[0], b.current_state()[0], a.get_message_queue_size(), b.get_message_queue_size()); }

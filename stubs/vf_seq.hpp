#pragma once
#include <cstddef>
#include <new>
#include <utility>
// index-based fixed-capacity sequence: elements never move; order kept in a byte array
template <class T, std::size_t N>
class vf_static_seq {
  // typed storage with manual lifetime: CBMC keeps the members of T (function pointers, control blocks) as separate fields
  union cell_t { T v; cell_t() {} ~cell_t() {} };
  cell_t buf_[N];
  unsigned char ord_[N] = {};
  unsigned char used_[N] = {};
  std::size_t size_ = 0;
  T* slot(std::size_t s) { return &buf_[s].v; }
  const T* slot(std::size_t s) const { return &buf_[s].v; }
  std::size_t alloc_slot() { for (std::size_t s=0;s<N;++s) if (!used_[s]) { used_[s]=1; return s; } __builtin_trap(); }
public:
  typedef T value_type; typedef std::size_t size_type;
  struct iterator {
    vf_static_seq* c; std::size_t pos;
    T& operator*() const { return *c->slot(c->ord_[pos]); }
    T* operator->() const { return c->slot(c->ord_[pos]); }
    iterator& operator++() { ++pos; return *this; }
    iterator operator++(int) { iterator t=*this; ++pos; return t; }
    bool operator==(const iterator& o) const { return pos==o.pos; }
    bool operator!=(const iterator& o) const { return pos!=o.pos; }
  };
  vf_static_seq() {}
  vf_static_seq(const vf_static_seq& o) { for (std::size_t i=0;i<o.size_;++i) push_back_copy(*o.slot(o.ord_[i])); }
  vf_static_seq(vf_static_seq&& o) { for (std::size_t i=0;i<o.size_;++i) push_back(std::move(*o.slot(o.ord_[i]))); o.clear(); }
  vf_static_seq& operator=(const vf_static_seq& o) { if (this!=&o){ clear(); for (std::size_t i=0;i<o.size_;++i) push_back_copy(*o.slot(o.ord_[i])); } return *this; }
  vf_static_seq& operator=(vf_static_seq&& o) { if (this!=&o){ clear(); for (std::size_t i=0;i<o.size_;++i) push_back(std::move(*o.slot(o.ord_[i]))); o.clear(); } return *this; }
  ~vf_static_seq() { clear(); }
  bool empty() const { return size_==0; }
  size_type size() const { return size_; }
  iterator begin() { return iterator{this,0}; } iterator end() { return iterator{this,size_}; }
  void push_back_copy(const T& v) { std::size_t s=alloc_slot(); new (slot(s)) T(v); ord_[size_++]=(unsigned char)s; }
  void push_back(T&& v) { std::size_t s=alloc_slot(); new (slot(s)) T(std::move(v)); ord_[size_++]=(unsigned char)s; }
  void push_front(T&& v) { std::size_t s=alloc_slot(); new (slot(s)) T(std::move(v)); for (std::size_t i=size_; i>0; --i) ord_[i]=ord_[i-1]; ord_[0]=(unsigned char)s; ++size_; }
  iterator erase(iterator it) { std::size_t s=ord_[it.pos]; slot(s)->~T(); used_[s]=0; for (std::size_t i=it.pos; i+1<size_; ++i) ord_[i]=ord_[i+1]; --size_; return it; }
  void clear() { for (std::size_t i=0;i<size_;++i){ std::size_t s=ord_[i]; slot(s)->~T(); used_[s]=0; } size_=0; }
};

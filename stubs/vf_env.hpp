// Environment stubs, included before any MSM header (see DESIGN.md 1.1):
//  * vf_static_queue / vf_static_seq: fixed-capacity, index-based sequence containers that
//    stand in for std::deque / boost::circular_buffer (libstdc++ / Boost.CircularBuffer code,
//    not MSM).  Elements never move; overflow traps (reported as "bound exceeded").
//  * std::stable_sort on the stub container -> contract-equivalent stable insertion sort.
#pragma once
#include <algorithm>
#include <utility>
#include <exception>
#include <cstddef>
#ifndef VF_QCAP
#define VF_QCAP 4
#endif
#include "vf_queue_b.hpp"
#include "vf_seq.hpp"
#define stable_sort vf_stable_sort

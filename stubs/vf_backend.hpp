// Harness-side glue: selects the back-end under test (-DVF_BE=n) and provides the
// behaviour templates every generated harness machine uses.  Included first in every
// generated TU.  VF_BE: 0 back  1 back+favor_compile_time  2 back11  3 backmp11 flat_fold
//                      4 backmp11 function_pointer_array   5 backmp11 favor_compile_time
#pragma once
#ifdef VF_PFX
// product harnesses link two harness TUs into one program: give this TU's C interface its own prefix
#define VF_CAT_(a, b) a##b
#define VF_CAT(a, b) VF_CAT_(a, b)
#define VF_X(n) VF_CAT(VF_PFX, n)
#define vf_log VF_X(_vf_log)
#define vf_guard VF_X(_vf_guard)
#define vf_guardc VF_X(_vf_guardc)
#define vf_hook VF_X(_vf_hook)
#define vf_start VF_X(_vf_start)
#define vf_stop VF_X(_vf_stop)
#define vf_ev VF_X(_vf_ev)
#define vf_id VF_X(_vf_id)
#define vf_sid VF_X(_vf_sid)
#define vf_sidx VF_X(_vf_sidx)
#define vf_cfg VF_X(_vf_cfg)
#define vf_flags VF_X(_vf_flags)
#define vf_introspect VF_X(_vf_introspect)
#define vf_is_mp11 VF_X(_vf_is_mp11)
#define vf_visit VF_X(_vf_visit)
#define vf_destroy VF_X(_vf_destroy)
#define vf_probe VF_X(_vf_probe)
#define vf_cnt VF_X(_vf_cnt)
#define vf_reuse_moved_from VF_X(_vf_reuse_moved_from)
#define vf_qsize2 VF_X(_vf_qsize2)
#define vf_execq2 VF_X(_vf_execq2)
#define vf_id2 VF_X(_vf_id2)
#define vf_ev2 VF_X(_vf_ev2)
#define vf_copy VF_X(_vf_copy)
#define vf_qsize VF_X(_vf_qsize)
#define vf_exec1 VF_X(_vf_exec1)
#define vf_execq VF_X(_vf_execq)
#define vf_enq VF_X(_vf_enq)
#define vf_pay_stdany VF_X(_vf_pay_stdany)
#define vf_pay_boostany VF_X(_vf_pay_boostany)
#endif
#include "vf_env.hpp"
#ifndef VF_BE
#define VF_BE 0
#endif
#ifndef VF_QCAP
#define VF_QCAP 4
#endif
#if VF_BE <= 1
#include <boost/msm/back/state_machine.hpp>
#if VF_BE == 1
#include <boost/msm/back/favor_compile_time.hpp>
#endif
#elif VF_BE == 2
#include <boost/msm/back11/state_machine.hpp>
#else
#include <boost/msm/backmp11/state_machine.hpp>
#if VF_BE == 5
#include <boost/msm/backmp11/favor_compile_time.hpp>
#endif
#endif
#include <boost/msm/front/state_machine_def.hpp>
#include <boost/msm/front/functor_row.hpp>
#include <boost/msm/front/internal_row.hpp>
#include <boost/msm/front/completion_event.hpp>
#include <boost/msm/front/operator.hpp>

namespace msm = boost::msm; namespace mpl = boost::mpl;
using msm::front::Row; using msm::front::Internal; using msm::front::none; using msm::front::Defer;

extern "C" {
void vf_log(int code, int arg);
int vf_guard(int site);
int vf_hook(int site);
void vf_life(int delta);   // C20: +1 for every constructed event object, -1 for every destroyed one      // harness-controlled decision at a behaviour position (submit / throw)
}

// payload of an event as seen by a behaviour: e.p if present, -1 otherwise (InitEvent, ...)
template <class E> auto vf_pay_(E const& e, int) -> decltype((int)e.p) { return e.p; }
template <class E> int vf_pay_(E const&, long) { return -1; }
template <class E> int vf_pay(E const& e) { return vf_pay_(e, 0); }
// type-erased events (backmp11 favor_compile_time hands std::any to no_transition; Kleene rows
// hand boost::any / std::any to their behaviours): unwrap through the TU's event list
#include <any>
#include <boost/any.hpp>
int vf_pay_stdany(std::any const& a);
int vf_pay_boostany(boost::any const& a);
inline int vf_pay(std::any const& a) { return vf_pay_stdany(a); }
inline int vf_pay(boost::any const& a) { return vf_pay_boostany(a); }

// Kleene trigger type per back-end family
#if VF_BE >= 3
#include <boost/msm/backmp11/event_traits.hpp>
#define VF_KLEENE std::any
#else
#include <boost/msm/event_traits.hpp>
#define VF_KLEENE boost::any
#endif
#define VF_ENTRY(I) (100 + 4 * (I))
#define VF_EXIT(I) (101 + 4 * (I))
#define VF_ACT(I) (2000 + (I))
#define VF_NOTRANS(M, S) (4000 + 64 * (M) + (S))
#define VF_EXC(M) (5000 + (M))

// product harnesses compare two back-ends whose state numbering may differ: log the state by its catalogue index
extern "C" int vf_sidx(int mi, int id);
#ifdef VF_NORMALIZE_IDS
#define VF_NT_ID(MI, s) vf_sidx(MI, s)
#else
#define VF_NT_ID(MI, s) (s)
#endif
extern "C" void vf_probe(void);     // defined by the generated TU: logs what the root machine reports right now
#ifdef VF_PROBE_ON
#define VF_PROBE(phase, idx, fsm) vf_probe();
#endif
#ifndef VF_PROBE
#define VF_PROBE(phase, idx, fsm)
#endif
// C12: every behaviour is a possible throw point; the harness decides (vf_hook) which single position throws in a step
struct vf_exc : std::exception {};
#ifdef VF_THROW_ON
#define VF_BEHAV_HOOK(kind, idx, e, fsm) if (vf_hook((kind) * 64 + (idx))) throw vf_exc();
#endif
#ifndef VF_BEHAV_HOOK
#define VF_BEHAV_HOOK(kind, idx, e, fsm)
#endif

// C14: guards and actions additionally report which source / target state objects they were called with
template <class S> auto vf_stidx_(S const&, int) -> decltype((int)S::vf_state_index) { return (int)S::vf_state_index; }
template <class S> int vf_stidx_(S const&, long) { return 255; }
#ifdef VF_SRCTGT_ON
#define VF_SRCTGT(s, t) vf_log(8000, vf_stidx_(s, 0) * 256 + vf_stidx_(t, 0));
#else
#define VF_SRCTGT(s, t)
#endif

#define VF_STATE_BODY(I)                                                                         \
  enum { vf_state_index = I };                                                                   \
  template <class E, class F> void on_entry(E const& e, F& f) { vf_log(VF_ENTRY(I), vf_pay(e)); VF_PROBE(3, I, f) VF_BEHAV_HOOK(0, I, e, f) } \
  template <class E, class F> void on_exit(E const& e, F& f) { vf_log(VF_EXIT(I), vf_pay(e)); VF_PROBE(1, I, f) VF_BEHAV_HOOK(1, I, e, f) }

#define VF_SM_BODY(I, MI)                                                                        \
  VF_STATE_BODY(I)                                                                               \
  template <class F, class E> void no_transition(E const& e, F&, int s) { vf_log(VF_NOTRANS(MI, VF_NT_ID(MI, s)), vf_pay(e)); } \
  template <class F, class E> void exception_caught(E const& e, F&, std::exception&) { vf_log(VF_EXC(MI), vf_pay(e)); }

template <int N> struct Act {
  template <class E, class F, class S, class T> void operator()(E const& e, F& f, S& s_, T& t_) { VF_SRCTGT(s_, t_) vf_log(VF_ACT(N), vf_pay(e)); VF_PROBE(2, N, f) VF_BEHAV_HOOK(2, N, e, f) }
};
// behaviours that submit further events while an event is being processed (C04).  Mode 0: fsm.process_event, 1: fsm.enqueue_event.
// The nested event carries the payload of the triggering event + 1.
template <class Ev, int Mode, class E, class F> inline void vf_send(E const& e, F& f) {
  Ev n((int)((unsigned)vf_pay(e) + 1u));
  if (Mode == 0) f.process_event(n); else f.enqueue_event(n);
}
template <int N, class Ev, int Mode> struct ActSend {
  template <class E, class F, class S, class T> void operator()(E const& e, F& f, S&, T&) { vf_log(VF_ACT(N), vf_pay(e)); vf_send<Ev, Mode>(e, f); }
};
template <int N, class Ev1, int M1, class Ev2, int M2> struct ActSend2 {
  template <class E, class F, class S, class T> void operator()(E const& e, F& f, S&, T&) { vf_log(VF_ACT(N), vf_pay(e)); vf_send<Ev1, M1>(e, f); vf_send<Ev2, M2>(e, f); }
};
template <int N, class Ev, int Mode> struct GdSend {
  template <class E, class F, class S, class T> bool operator()(E const& e, F& f, S&, T&) { vf_send<Ev, Mode>(e, f); return vf_guard(N) != 0; }
};
#define VF_STATE_BODY_SEND(I, ON_ENTRY, ON_EXIT)                                                      \
  template <class E, class F> void on_entry(E const& e, F& f) { vf_log(VF_ENTRY(I), vf_pay(e)); ON_ENTRY }  \
  template <class E, class F> void on_exit(E const& e, F& f) { vf_log(VF_EXIT(I), vf_pay(e)); ON_EXIT }

// guard of a completion (anonymous) transition: logged in its own class (see DESIGN C10)
extern "C" int vf_guardc(int site);
template <int N> struct Gc {
  template <class E, class F, class S, class T> bool operator()(E const&, F&, S&, T&) { return vf_guardc(N) != 0; }
};
template <int N> struct Gd {
  template <class E, class F, class S, class T> bool operator()(E const& e, F& f, S& s_, T& t_) { VF_SRCTGT(s_, t_) VF_PROBE(0, N, f) VF_BEHAV_HOOK(3, N, e, f) return vf_guard(N) != 0; }
};

#if VF_BE <= 1
#if VF_BE == 0
#define VF_SM(F) msm::back::state_machine<F, vf_queue_policy>
#define VF_SM_H(F, H) msm::back::state_machine<F, H, vf_queue_policy>
#else
#define VF_SM(F) msm::back::state_machine<F, msm::back::favor_compile_time, vf_queue_policy>
#define VF_SM_H(F, H) msm::back::state_machine<F, H, msm::back::favor_compile_time, vf_queue_policy>
#endif
#define VF_HIST_NONE msm::back::NoHistory
#define VF_HIST_ALWAYS msm::back::AlwaysHistory
#define VF_HIST_SHALLOW(...) msm::back::ShallowHistory<mpl::vector<__VA_ARGS__> >
#define VF_IDS(obj) (obj).current_state()
#define VF_SID(MT, ST) ((int)msm::back::get_state_id<typename MT::stt, ST>::value)
#define VF_ROOT(F) typedef VF_SM(F) M;
#define VF_ROOT_H(F, H) typedef VF_SM_H(F, H) M;
#define VF_FRONT_HISTORY(X)
#define VF_IS_MP11 0
#define VF_FLAG_AND(obj, F) (obj).template is_flag_active<F, typename M::Flag_AND>()
#elif VF_BE == 2
#define VF_SM(F) msm::back11::state_machine<F, void, vf_queue_policy>
#define VF_SM_H(F, H) msm::back11::state_machine<F, void, H, vf_queue_policy>
#define VF_HIST_NONE msm::back::NoHistory
#define VF_HIST_ALWAYS msm::back::AlwaysHistory
#define VF_HIST_SHALLOW(...) msm::back::ShallowHistory<mpl::vector<__VA_ARGS__> >
#define VF_IDS(obj) (obj).current_state()
#define VF_SID(MT, ST) ((int)msm::back11::get_state_id<typename MT::stt, ST>::value)
#define VF_ROOT(F) typedef VF_SM(F) M;
#define VF_ROOT_H(F, H) typedef VF_SM_H(F, H) M;
#define VF_FRONT_HISTORY(X)
#define VF_IS_MP11 0
#define VF_FLAG_AND(obj, F) (obj).template is_flag_active<F, typename M::Flag_AND>()
#else
#if VF_BE == 3
struct vf_policy : msm::backmp11::favor_runtime_speed {};
#elif VF_BE == 4
struct vf_policy : msm::backmp11::favor_runtime_speed { using dispatch_strategy = msm::backmp11::dispatch_strategy::function_pointer_array; };
#else
typedef msm::backmp11::favor_compile_time vf_policy;
#endif
struct vf_cfg : msm::backmp11::default_state_machine_config {
  using compile_policy = vf_policy;
  template <typename T> using event_container = vf_static_seq<T, VF_QCAP>;
};
#define VF_SM(F) msm::backmp11::state_machine<F, vf_cfg>
#define VF_SM_H(F, H) msm::backmp11::state_machine<F, vf_cfg>
#define VF_HIST_NONE msm::front::no_history
#define VF_HIST_ALWAYS msm::front::always_shallow_history
#define VF_HIST_SHALLOW(...) msm::front::shallow_history<__VA_ARGS__>
#define VF_IDS(obj) (obj).get_active_state_ids()
#define VF_SID(MT, ST) ((int)MT::template get_state_id<ST>())
// the root derives from the back-end so the harness can reach the protected event pool
#define VF_ROOT(F) struct M : msm::backmp11::state_machine<F, vf_cfg, M> { \
    typedef msm::backmp11::state_machine<F, vf_cfg, M> base; using base::base; \
    std::size_t vf_pool_size() { std::size_t n = 0; auto& ev = this->get_event_pool().events; for (auto it = ev.begin(); it != ev.end(); ++it) if (!(*it)->marked_for_deletion()) ++n; return n; } \
    void vf_pool_clear() { this->get_event_pool().events.clear(); } };
#define VF_ROOT_H(F, H) VF_ROOT(F)
#define VF_FRONT_HISTORY(X) typedef X history;
#define VF_IS_MP11 1
#define VF_FLAG_AND(obj, F) (obj).template is_flag_active<F, msm::backmp11::flag_and>()
#endif

#if defined(BOOST_NO_EXCEPTIONS)
// -fno-exceptions build: Boost requires the user to provide these; reaching one is reported
#include <boost/assert/source_location.hpp>
namespace boost {
inline void throw_exception(std::exception const&) { __builtin_trap(); }
inline void throw_exception(std::exception const&, boost::source_location const&) { __builtin_trap(); }
}
#endif


// ---- C16: verification archive (environment stub standing in for a Boost.Serialization archive).  Contract of any
// archive: primitives come back in the order they were written; classes are visited through serialize(ar, version).
#ifdef VF_SERIALIZE
#include <type_traits>
struct vf_archive {
  int* buf; int pos; bool saving;
  typedef mpl::bool_<true> is_saving;   // (not consulted by MSM)
  vf_archive(int* b, bool s) : buf(b), pos(0), saving(s) {}
  template <class T> typename std::enable_if<std::is_arithmetic<T>::value || std::is_enum<T>::value>::type io(T& t) {
    if (saving) buf[pos++] = (int)t; else t = (T)buf[pos++];
  }
  template <class T, std::size_t N> void io(T (&a)[N]) { for (std::size_t i = 0; i < N; ++i) io(a[i]); }
  template <class T> typename std::enable_if<std::is_class<T>::value>::type io(T& t) { t.serialize(*this, 0u); }
  template <class T> vf_archive& operator&(T& t) { io(t); return *this; }
  template <class T> vf_archive& operator&(T const& t) { io(const_cast<T&>(t)); return *this; }
};
namespace boost { namespace serialization {
// what base_object<Base>(derived) provides to MSM's serialize(): the Base sub-object (the registration machinery of the
// compiled Boost.Serialization library is not part of MSM and not modelled)
template <class Base, class Derived> Base& base_object(Derived& d) { return d; }
} }
#define VF_SER_STATE(I) int cnt = 0; \
  template <class E, class F> void on_entry(E const& e, F& f) { ++cnt; vf_log(VF_ENTRY(I), vf_pay(e)); } \
  template <class E, class F> void on_exit(E const& e, F& f) { vf_log(VF_EXIT(I), vf_pay(e)); }
#define VF_SER_DO typedef int do_serialize; template <class Ar> void serialize(Ar& ar, const unsigned int) { ar & cnt; }
#endif

#pragma once
#include <cstddef>
#include <new>
#include <utility>
#include <iterator>
// index-based fixed-capacity FIFO: elements never move; order kept in a byte array
template <class T, std::size_t N>
class vf_static_queue {
public:
  // typed storage with manual lifetime: CBMC keeps the members of T (function pointers, control blocks) as separate fields
  union cell_t { T v; cell_t() {} ~cell_t() {} };
  cell_t buf_[N];
  unsigned char ord_[N] = {};
  unsigned char used_[N] = {};
  std::size_t size_ = 0;
  T* slot(std::size_t s) { return &buf_[s].v; }
  const T* slot(std::size_t s) const { return &buf_[s].v; }
  std::size_t alloc_slot() { for (std::size_t s=0;s<N;++s) if (!used_[s]) { used_[s]=1; return s; } __builtin_trap(); }
  typedef T value_type; typedef std::size_t size_type;
  struct iterator {
    typedef std::forward_iterator_tag iterator_category; typedef T value_type; typedef std::ptrdiff_t difference_type; typedef T* pointer; typedef T& reference;
    vf_static_queue* c; std::size_t pos;
    T& operator*() const { return *c->slot(c->ord_[pos]); }
    T* operator->() const { return c->slot(c->ord_[pos]); }
    iterator& operator++() { ++pos; return *this; }
    iterator operator++(int) { iterator t=*this; ++pos; return t; }
    bool operator==(const iterator& o) const { return pos==o.pos; }
    bool operator!=(const iterator& o) const { return pos!=o.pos; }
  };
  vf_static_queue() {}
  vf_static_queue(const vf_static_queue& o) { for (std::size_t i=0;i<o.size_;++i) push_back(*o.slot(o.ord_[i])); }
  vf_static_queue& operator=(const vf_static_queue& o) { if (this!=&o){ clear(); for (std::size_t i=0;i<o.size_;++i) push_back(*o.slot(o.ord_[i])); } return *this; }
  ~vf_static_queue() { clear(); }
  bool empty() const { return size_==0; }
  size_type size() const { return size_; }
  T& front() { return *slot(ord_[0]); }
  iterator begin() { return iterator{this,0}; } iterator end() { return iterator{this,size_}; }
  void push_back(const T& v) { std::size_t s=alloc_slot(); new (slot(s)) T(v); ord_[size_++]=(unsigned char)s; }
  void pop_front() { std::size_t s=ord_[0]; slot(s)->~T(); used_[s]=0; for (std::size_t i=0;i+1<size_;++i) ord_[i]=ord_[i+1]; --size_; }
  void clear() { for (std::size_t i=0;i<size_;++i){ std::size_t s=ord_[i]; slot(s)->~T(); used_[s]=0; } size_=0; }
};
struct vf_queue_policy {
  typedef int queue_container_policy;
  template <class T> struct In { typedef vf_static_queue<T, VF_QCAP> type; };
};
namespace std {
// contract stub for std::stable_sort on the stub container: stable insertion sort permuting the order array
template <class T, std::size_t N, class Cmp>
void vf_stable_sort(typename vf_static_queue<T,N>::iterator first, typename vf_static_queue<T,N>::iterator last, Cmp cmp);
template <class It, class Cmp> void vf_stable_sort(It first, It last, Cmp cmp) {
  auto* c = first.c;
  for (std::size_t i = first.pos + 1; i < last.pos; ++i)
    for (std::size_t j = i; j > first.pos && cmp(*c->slot(c->ord_[j]), *c->slot(c->ord_[j-1])); --j) { unsigned char t=c->ord_[j]; c->ord_[j]=c->ord_[j-1]; c->ord_[j-1]=t; }
}
}

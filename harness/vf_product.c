#include "vf_product.h"
uint32_t vf_plc[2][VF_MAXLOG];
int32_t vf_pla[2][VF_MAXLOG];
int vf_pn[2];
uint8_t vf_gv[32];
uint32_t vf_gmask;
int vf_in_prefix;
uint32_t vf_inputs[VF_NIN];
#ifndef __CPROVER__
int vf_failed;
static int vf_print;
#endif
static void plog(int ch, uint32_t code, uint32_t arg) {
#ifndef __CPROVER__
  if (vf_print && !vf_in_prefix) printf("log%c %u %d\n", 'A' + ch, (unsigned)code, (int)arg);
#endif
  if (vf_in_prefix) return;
  VF_CHECK(vf_pn[ch] < VF_MAXLOG, "bound:log capacity exceeded");
  if (vf_pn[ch] < VF_MAXLOG) { vf_plc[ch][vf_pn[ch]] = code; vf_pla[ch][vf_pn[ch]] = (int32_t)arg; }
  vf_pn[ch]++;
}
static vf_i32 pguard(int ch, vf_i32 site, uint32_t base) { uint32_t v = vf_gv[site & 31]; plog(ch, base + 2 * site + v, 0); return v; }
void ga_vf_log(vf_i32 c, vf_i32 a) { plog(0, c, a); }
void gb_vf_log(vf_i32 c, vf_i32 a) { plog(1, c, a); }
vf_i32 ga_vf_guard(vf_i32 s) { return pguard(0, s, 3000); }
vf_i32 gb_vf_guard(vf_i32 s) { return pguard(1, s, 3000); }
vf_i32 ga_vf_guardc(vf_i32 s) { return vf_gv[s & 31]; }   /* completion guards: consultations are not compared (C10/C13 quantifier) */
vf_i32 gb_vf_guardc(vf_i32 s) { return vf_gv[s & 31]; }
int32_t vf_pthrow[2] = {-1, -1};    /* C13 with exceptions: the behaviour position that throws in the step, per configuration (one fault per step) */
vf_i32 ga_vf_hook(vf_i32 s) { if ((int32_t)s == vf_pthrow[0]) { vf_pthrow[0] = -1; return 1; } return 0; }
vf_i32 gb_vf_hook(vf_i32 s) { if ((int32_t)s == vf_pthrow[1]) { vf_pthrow[1] = -1; return 1; } return 0; }
#define VF_G1(i, e) vf_gv[i] = (uint8_t)(e);
#define VF_G8(b, E) E(b) E(b + 1) E(b + 2) E(b + 3) E(b + 4) E(b + 5) E(b + 6) E(b + 7)
void vf_set_guards(uint32_t m) {
  vf_gmask = m;
#define VF_SETG(i) VF_G1(i, (m >> (i)) & 1u)
  VF_G8(0, VF_SETG) VF_G8(8, VF_SETG) VF_G8(16, VF_SETG) VF_G8(24, VF_SETG)
}
void vf_nondet_guards(uint32_t fixmask, uint32_t fixval) {
  uint32_t n = vf_nondet(3);
  n = (n & ~fixmask) | (fixval & fixmask);
  vf_inputs[3] = n;      /* the effective valuation is what a replay needs */
  vf_gmask = n;
#define VF_NDG(i) VF_G1(i, ((fixmask >> (i)) & 1u) ? ((fixval >> (i)) & 1u) : ((n >> (i)) & 1u))
  VF_G8(0, VF_NDG) VF_G8(8, VF_NDG) VF_G8(16, VF_NDG) VF_G8(24, VF_NDG)
}
void vf_compare_logs(const char* tag) {
  VF_CHECK(vf_pn[0] == vf_pn[1], "PRODUCT:number of behaviour invocations differs");
  for (int i = 0; i < VF_MAXLOG; i++) {
    if (i < vf_pn[0] && i < vf_pn[1]) {
      VF_CHECK(vf_plc[0][i] == vf_plc[1][i], "PRODUCT:behaviour invocation differs");
      VF_CHECK(vf_pla[0][i] == vf_pla[1][i], "PRODUCT:behaviour argument differs");
    }
  }
}
void vf_compare_cfg(const char* tag) {
  for (int s = 0; s < VF_NSLOTS; s++) VF_CHECK(ga_vf_cfg(s) == gb_vf_cfg(s), "PRODUCT:active configuration differs");
}
void vf_compare_results(uint32_t ra, uint32_t rb, const char* tag) {
  VF_CHECK(((ra & 1) != 0) == ((rb & 1) != 0), "PRODUCT:handled status differs");
  VF_CHECK((ra == 0) == (rb == 0), "PRODUCT:zero status differs");
}
#ifdef __CPROVER__
uint32_t nondet_u32(void);
uint32_t vf_nondet(int slot) { uint32_t v = nondet_u32(); vf_inputs[slot] = v; return v; }
void vf_pinit(void) { ll2c_init_globals_a(); ll2c_init_globals_b(); }
#else
uint32_t vf_nondet(int slot) { return vf_inputs[slot]; }
void vf_pinit(void) {
#ifdef GEN
  ll2c_init_globals_a(); ll2c_init_globals_b();
#endif
}
extern void (*vf_harnesses[])(void);
extern int vf_nharness;
int main(int argc, char** argv) {
  if (argc < 2) return 2;
  int h = atoi(argv[1]);
  if (h < 0 || h >= vf_nharness) return 2;
  for (int i = 2; i < argc && i - 2 < VF_NIN; i++) vf_inputs[i - 2] = (uint32_t)strtoul(argv[i], 0, 0);
  vf_print = getenv("VF_PRINT") != 0;
  vf_harnesses[h]();
  printf(vf_failed ? "RESULT fail\n" : "RESULT ok\n");
  return vf_failed ? 1 : 0;
}
#endif

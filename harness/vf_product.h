/* product harness runtime: two harness TUs (symbol prefixes ga_ / gb_) driven with the same inputs */
#ifndef VF_PRODUCT_H
#define VF_PRODUCT_H
#include <stdint.h>
typedef uint32_t vf_i32;
#define VFA(x) ga_##x
#define VFB(x) gb_##x
#ifndef VF_MAXLOG
#define VF_MAXLOG 32
#endif
#define VF_NIN 16
#define VF_NSLOTS 10
#ifdef GEN
void ll2c_init_globals_a(void);
void ll2c_init_globals_b(void);
#endif
#define VF_DECL(P) void P##vf_start(void); void P##vf_stop(void); vf_i32 P##vf_ev(vf_i32, vf_i32); vf_i32 P##vf_cfg(vf_i32);
VF_DECL(ga_) VF_DECL(gb_)
extern uint32_t vf_plc[2][VF_MAXLOG];
extern int32_t vf_pla[2][VF_MAXLOG];
extern int vf_pn[2];
extern int32_t vf_pthrow[2];
extern uint8_t vf_gv[32];
extern uint32_t vf_gmask;
extern int vf_in_prefix;
extern uint32_t vf_inputs[VF_NIN];
void vf_pinit(void);
uint32_t vf_nondet(int slot);
void vf_set_guards(uint32_t m);
void vf_nondet_guards(uint32_t fixmask, uint32_t fixval);
void vf_compare_logs(const char* tag);
void vf_compare_cfg(const char* tag);
void vf_compare_results(uint32_t ra, uint32_t rb, const char* tag);
#ifdef __CPROVER__
#define VF_CHECK(c, msg) __CPROVER_assert((c), msg)
#define VF_ASSUME(c) __CPROVER_assume(c)
#else
#include <stdio.h>
#include <stdlib.h>
extern int vf_failed;
#define VF_CHECK(c, msg) do { if (!(c)) { printf("CHECK-FAILED %s\n", msg); vf_failed = 1; } } while (0)
#define VF_ASSUME(c) do { if (!(c)) { printf("ASSUME-FALSE\n"); exit(77); } } while (0)
#endif
#ifdef WITNESS
#define VF_WITNESS() VF_CHECK(0, "witness:reachable")
#else
#define VF_WITNESS() do {} while (0)
#endif
#endif

/* harness runtime: behaviour log, guard valuation, nondet inputs (see vf_harness.h) */
#include "vf_harness.h"
uint32_t vf_lc[VF_MAXLOG];
int32_t vf_la[VF_MAXLOG];
int vf_nlog;
uint32_t vf_gmask;
uint32_t vf_gcount[32];
uint8_t vf_gv[32];
int vf_in_prefix;
uint32_t vf_inputs[VF_NIN];
uint32_t vf_hookmask;
uint32_t vf_which;
uint32_t vf_projmask = 0xffffffffu;
#ifndef __CPROVER__
int vf_failed;
static int vf_print;
#endif

void VFN(vf_log)(vf_i32 code, vf_i32 arg) {
#ifndef __CPROVER__
  if (vf_print && !vf_in_prefix) printf("log %u %d\n", (unsigned)code, (int)arg);
#endif
  if (vf_in_prefix) return;
  {
    uint32_t c = (uint32_t)code, cls;
    if (c < 2000) cls = ((c - 100) & 3) == 1 ? VF_M_X : VF_M_E;
    else if (c < 3000) cls = VF_M_A;
    else if (c < 4000) cls = VF_M_G;
    else if (c < 5000) cls = VF_M_N;
    else if (c < 6000) cls = VF_M_C;
    else if (c < 7000) cls = VF_M_F;
    else if (c < 8000) cls = VF_M_Q;
    else cls = VF_M_S;
    if (!(vf_projmask & cls)) return;
  }
  VF_CHECK(vf_nlog < VF_MAXLOG, "bound:log capacity exceeded");
  if (vf_nlog < VF_MAXLOG) { vf_lc[vf_nlog] = (uint32_t)code; vf_la[vf_nlog] = (int32_t)arg; }
  vf_nlog++;
}

/* guard valuation: one variable per site, so that sites fixed by a case split stay constants for CBMC's symbolic
 * execution (a bit extracted from a partly symbolic word would not) */
#define VF_G1(i, e) vf_gv[i] = (uint8_t)(e);
#define VF_G8(b, E) E(b) E(b + 1) E(b + 2) E(b + 3) E(b + 4) E(b + 5) E(b + 6) E(b + 7)
void vf_set_guards(uint32_t m) {
  vf_gmask = m;
#define VF_SETG(i) VF_G1(i, (m >> (i)) & 1u)
  VF_G8(0, VF_SETG) VF_G8(8, VF_SETG) VF_G8(16, VF_SETG) VF_G8(24, VF_SETG)
}
void vf_nondet_guards(uint32_t fixmask, uint32_t fixval) {
  uint32_t n = vf_nondet(3);
  n = (n & ~fixmask) | (fixval & fixmask);
  vf_inputs[3] = n;      /* the effective valuation is what a replay needs */
  vf_gmask = n;
#define VF_NDG(i) VF_G1(i, ((fixmask >> (i)) & 1u) ? ((fixval >> (i)) & 1u) : ((n >> (i)) & 1u))
  VF_G8(0, VF_NDG) VF_G8(8, VF_NDG) VF_G8(16, VF_NDG) VF_G8(24, VF_NDG)
}

vf_i32 VFN(vf_guard)(vf_i32 site) {
  uint32_t v = vf_gv[site & 31];
  VFN(vf_log)((vf_i32)(3000 + 2 * site + v), 0);
  return (vf_i32)v;
}

vf_i32 VFN(vf_guardc)(vf_i32 site) {
  uint32_t v = vf_gv[site & 31];
  VFN(vf_log)((vf_i32)(7000 + 2 * site + v), 0);
  return (vf_i32)v;
}

int vf_live;
void VFN(vf_life)(vf_i32 d) { vf_live += (int)d; }
int32_t vf_throw_site = -1, vf_throw_site0 = -1;   /* C12: the behaviour position (kind * 64 + index) that throws in the current step, -1 = none */
vf_i32 VFN(vf_hook)(vf_i32 site) { if ((int32_t)site == vf_throw_site) { vf_throw_site = -1; return 1; } return 0; }   /* one fault per step */

#ifdef __CPROVER__
uint32_t nondet_u32(void);
uint32_t vf_nondet(int slot) { uint32_t v = nondet_u32(); vf_inputs[slot] = v; return v; }
void vf_init(void) { ll2c_init_globals(); }
#else
#include <string.h>
uint32_t vf_nondet(int slot) { return vf_inputs[slot]; }
void vf_init(void) {
#ifdef GEN
  ll2c_init_globals();
#endif
}
extern void (*vf_harnesses[])(void);
extern int vf_nharness;
int main(int argc, char** argv) {
  if (argc < 2) { printf("usage: %s <harness index> [inputs...]\n", argv[0]); return 2; }
  int h = atoi(argv[1]);
  if (h < 0 || h >= vf_nharness) return 2;
  for (int i = 2; i < argc && i - 2 < VF_NIN; i++) vf_inputs[i - 2] = (uint32_t)strtoul(argv[i], 0, 0);
  vf_print = getenv("VF_PRINT") != 0;
  vf_harnesses[h]();
  if (vf_print) printf("nlog %d\n", vf_nlog);
  printf(vf_failed ? "RESULT fail\n" : "RESULT ok\n");
  return vf_failed ? 1 : 0;
}
#endif

/* Common part of every generated C harness.  Three build modes:
 *   cbmc (-D GEN, __CPROVER__):   linked with the ll2c translation of the harness TU; inputs nondet
 *   gcc  -D GEN:                  same generated C, run natively (translator validation)
 *   g++ twin (no GEN):            linked with the real C++ TU (replay, translator validation)   */
#ifndef VF_HARNESS_H
#define VF_HARNESS_H
#include <stdint.h>
#ifdef GEN
#define VFN(x) g_##x
typedef uint32_t vf_i32;
void ll2c_init_globals(void);
#else
#define VFN(x) x
typedef int vf_i32;
#endif

#ifndef VF_MAXLOG
#define VF_MAXLOG 40
#endif
#define VF_NIN 16

/* exported by the harness TU */
void VFN(vf_start)(void);
void VFN(vf_stop)(void);
vf_i32 VFN(vf_ev)(vf_i32 kind, vf_i32 p);
vf_i32 VFN(vf_id)(vf_i32 mi, vf_i32 r);
vf_i32 VFN(vf_sid)(vf_i32 si);
vf_i32 VFN(vf_flags)(void);
vf_i32 VFN(vf_introspect)(void);
vf_i32 VFN(vf_visit)(void);
void VFN(vf_destroy)(void);
extern int vf_live;   /* C20: event objects constructed and not yet destroyed */
void VFN(vf_enq)(vf_i32 kind, vf_i32 p);
void VFN(vf_execq)(void);
void VFN(vf_exec1)(void);
vf_i32 VFN(vf_qsize)(void);
vf_i32 VFN(vf_is_mp11)(void);

extern uint32_t vf_lc[VF_MAXLOG];
extern int32_t vf_la[VF_MAXLOG];
extern int vf_nlog;
extern uint32_t vf_gmask;      /* guard valuation of the current step: bit per guard site */
extern uint32_t vf_gcount[32];
extern uint8_t vf_gv[32];        /* guard valuation of the current step, one variable per site */
void vf_set_guards(uint32_t m);
void vf_nondet_guards(uint32_t fixmask, uint32_t fixval); /* consult count per site in the current step */
extern int vf_in_prefix;
extern uint32_t vf_inputs[VF_NIN];
extern uint32_t vf_hookmask;
extern int32_t vf_throw_site, vf_throw_site0;
extern uint32_t vf_projmask;   /* which classes of behaviour-log entries this property observes */
#define VF_M_G 1u
#define VF_M_A 2u
#define VF_M_E 4u
#define VF_M_X 8u
#define VF_M_N 16u
#define VF_M_C 32u
#define VF_M_F 64u
#define VF_M_S 256u   /* source / target state identity seen by guards and actions (C14) */
#define VF_M_Q 128u   /* which behaviour hooks fire in the current step */

/* C15: two machine objects; the continuation drives one of them (vf_which) */
extern uint32_t vf_which;
void VFN(vf_copy)(vf_i32 mode);
vf_i32 VFN(vf_ev2)(vf_i32 kind, vf_i32 p);
vf_i32 VFN(vf_id2)(vf_i32 mi, vf_i32 r);
void VFN(vf_execq2)(void);
vf_i32 VFN(vf_qsize2)(void);
void VFN(vf_reuse_moved_from)(void);
vf_i32 VFN(vf_cnt)(vf_i32 which, vf_i32 si);
#ifdef VF_TWO_MACHINES
#define VF_EV(k, p) (vf_which ? VFN(vf_ev2)(k, p) : VFN(vf_ev)(k, p))
#define VF_EXECQ() do { if (vf_which) VFN(vf_execq2)(); else VFN(vf_execq)(); } while (0)
#define VF_ID_DRIVEN(mi, r) (vf_which ? VFN(vf_id2)(mi, r) : VFN(vf_id)(mi, r))
#define VF_ID_OTHER(mi, r) (vf_which ? VFN(vf_id)(mi, r) : VFN(vf_id2)(mi, r))
#define VF_QSIZE_DRIVEN() (vf_which ? VFN(vf_qsize2)() : VFN(vf_qsize)())
#define VF_QSIZE_OTHER() (vf_which ? VFN(vf_qsize)() : VFN(vf_qsize2)())
#else
#define VF_EV(k, p) VFN(vf_ev)(k, p)
#define VF_EXECQ() VFN(vf_execq)()
#endif
void vf_init(void);
uint32_t vf_nondet(int slot);

#ifdef __CPROVER__
#define VF_CHECK(c, msg) __CPROVER_assert((c), msg)
#define VF_ASSUME(c) __CPROVER_assume(c)
#else
#include <stdio.h>
#include <stdlib.h>
extern int vf_failed;
#define VF_CHECK(c, msg) do { if (!(c)) { printf("CHECK-FAILED %s\n", msg); vf_failed = 1; } } while (0)
#define VF_ASSUME(c) do { if (!(c)) { printf("ASSUME-FALSE\n"); exit(77); } } while (0)
#endif
#ifdef WITNESS
#define VF_WITNESS() VF_CHECK(0, "witness:reachable")
#else
#define VF_WITNESS() do {} while (0)
#endif
#endif

"""replay a recorded counterexample against the native g++ build of the real headers"""
import json, os, shutil
from . import props, runner

def replay(path):
    rec = json.load(open(path))
    own = 'VF_WORK' not in os.environ
    if own: os.environ['VF_WORK'] = '/dev/shm/vfwork.replay.%d' % os.getpid()
    try:
        chk = props.PROPS[rec['property']](rec.get('tier', 'thorough'), 1)
        for u in chk.units:
            if u.name == rec['program'] and u.be == rec['be']:
                u.build_real()
                # the harness is identified by its configuration (the index depends on the tier's enumeration)
                hs = [i for i, ix in enumerate(u.index) if ix['conf'] == rec['conf']]
                h = rec['harness'] if (not hs or rec['harness'] in hs) else hs[0]
                if rec['label'].startswith('uninitialised-value'):
                    # depends on an indeterminate value: shown by the MemorySanitizer build of the real TU
                    rc, out = u.run_native_msan(h, rec['inputs'])
                elif rec['label'].startswith('memory-safety'):
                    rc, out = u.run_native_asan(h, rec['inputs'])
                else:
                    rc, out = u.run_native(u.exe_real, h, rec['inputs'], True)
                print('replay %s on %s / %s, pre-state %s, prefix %s' % (rec['label'], rec['program'], rec['backend'], rec['conf'], rec['script']))
                print('inputs (sel, kind, payload, guard mask, ...):', rec['inputs'][:8])
                print(out)
                return 1 if rc != 0 else 0
        print('unit not found for', rec['program'], rec['be'])
        return 2
    finally:
        if own: shutil.rmtree(os.environ['VF_WORK'], ignore_errors=True)

"""check engine: units -> CBMC queries (parallel) -> counterexample replay -> known findings -> evidence"""
import os, sys, json, time, re, shutil, hashlib, concurrent.futures as cf
from . import model, emit, runner
from .runner import VERIF, VfError, BE_NAMES

NPAR = int(os.environ.get('VF_JOBS', '16'))
MEMSAFE = re.compile(r'double free|free argument|deallocated dynamic object in \*|dereference failure|memory leak|dynamic object|dead object|invalid pointer|free called')


def log(*a):
    print(*a, flush=True)


class Job:
    def __init__(s, unit, h, label=None, unwind=6, timeout=120, extra=(), strats=None):
        s.strats = strats
        s.unit = unit; s.h = h; s.label = label or unit.index[h]['conf']
        # budgets are stated for an otherwise idle 16-core machine; the default scale leaves a factor of two for a loaded one
        s.unwind = unwind; s.timeout0 = timeout; s.timeout = timeout * float(os.environ.get('VF_TIMEOUT_SCALE', '2')); s.extra = extra
        s.res = None; s.cex = []


def split_traces(out):
    """per failed property: inputs (last assignment to each vf_inputs slot in that trace)"""
    traces = {}
    parts = re.split(r'^Trace for ([^\n:]+):\s*$', out, flags=re.M)
    for i in range(1, len(parts), 2):
        ins = {}
        for m in re.finditer(r'vf_inputs\[(\d+)l?\]=(\d+)', parts[i + 1]):
            ins[int(m.group(1))] = int(m.group(2))
        traces[parts[i].strip()] = [ins.get(k, 0) for k in range(16)]
    return traces


HINTS_PATH = os.path.join(VERIF, 'strategy.json')
try: HINTS = json.load(open(HINTS_PATH))
except Exception: HINTS = {}
ND_PATH = os.path.join(VERIF, 'not_decided.json')
try: NOT_DECIDED = json.load(open(ND_PATH))
except Exception: NOT_DECIDED = {}
STRATS = ['n', 'p', 'nk', 'pk', 'nkg', 'nkG']   # (A: non-event steps split per reference path incl. the throwing position; T: event steps split per throwing position)
# n: one multi-path-merging BMC query; p: cbmc --paths lifo (no merging); *k: one query per event kind;
# g: additionally case-split on the first guard site the reference consults; G: on all sites it consults (one query per reference path;
# payload and all other guard bits stay symbolic)


def cbmc_once(job, strat, kind, witness, trace, timeout, gfix=None, xtra=()):
    u = job.unit
    extra = list(job.extra) + ['--verbosity', '8'] + list(xtra)
    if 'p' in strat: extra += ['--paths', 'lifo']
    if kind is not None: extra += ['-DVF_KIND=%d' % kind]
    if gfix is not None: extra += ['-DVF_GFIX_MASK=%du' % gfix[0], '-DVF_GFIX_VAL=%du' % gfix[1]]
    return u.cbmc(job.h, witness=witness, timeout=timeout, unwind=job.unwind, extra=extra, trace=trace)


def guard_splits(job, strat, kind):
    gs = guard_splits_(job, strat, kind)
    ix = job.unit.index[job.h]
    ts = (ix.get('tsites_by_kind') or {}).get(kind) or (ix.get('tsites_by_kind') or {}).get(str(kind)) or []
    if 'T' not in strat or not ts or kind is None: return gs
    # T: additionally one query per throwing position the reference passes, plus one for 'none of them'
    out = []
    for g in gs:
        m, v = (g[0], g[1]) if g else (0, 0)
        out += [(m, v, ('=', t)) for t in ts] + [(m, v, ('!', tuple(ts)))]
    return out


def guard_splits_(job, strat, kind):
    if kind is None or ('g' not in strat and 'G' not in strat): return [None]
    decs = job.unit.index[job.h].get('decs_by_kind', {}).get(kind) or job.unit.index[job.h].get('decs_by_kind', {}).get(str(kind)) or []
    decs = [d for d in decs if d]
    if not decs: return [None]
    if 'G' in strat:
        out = []
        for d in decs:
            mask = sum(1 << s_ for s_, _ in d); val = sum(1 << s_ for s_, v in d if v)
            if (mask, val) not in out: out.append((mask, val))
        return out
    site = decs[0][0][0]
    return [(1 << site, 0), (1 << site, 1 << site)]


def merge_results(rs):
    out = {'rc': 0, 'time': sum(r['time'] for r in rs), 'failed': [], 'verdict': 'success', 'inputs': None,
           'vccs': (sum((r.get('vccs') or (0, 0))[0] for r in rs), sum((r.get('vccs') or (0, 0))[1] for r in rs)),
           'solver_s': sum(r.get('solver_s', 0) or 0 for r in rs), 'nprops': sum(r.get('nprops', 0) for r in rs),
           'raw_tail': rs[-1]['raw_tail'], 'traces': {}}
    for i, r in enumerate(rs):
        # one counterexample per failed assertion AND per sub-query (a known finding in one sub-query must not hide a
        # different violation of the same assertion in another)
        tag = '#%d' % i if len(rs) > 1 else ''
        out['failed'] += [(pid + tag, desc) for pid, desc in r['failed']]
        out['traces'].update({pid + tag: t for pid, t in r.get('traces', {}).items()})
        if r['verdict'] in ('error', 'timeout'): out['verdict'] = r['verdict']; out['raw_tail'] = r['raw_tail']
    if out['verdict'] == 'success' and out['failed']: out['verdict'] = 'failed'
    return out


def attempt(job, strat, timeout):
    ix = job.unit.index[job.h]
    nalt = ix.get('nalt', 1); has_ev = ix.get('has_ev', True)
    if 'k' in strat and (job.unit.nevents > 1 or nalt > 1):
        subs = []
        if has_ev: subs += [(k, gfix, 0 if nalt > 1 else None) for k in range(job.unit.nevents) for gfix in guard_splits(job, strat, k)]
        for a in range(1 if has_ev else 0, nalt):
            dl = (ix.get('decs_by_alt') or {}).get(a) or (ix.get('decs_by_alt') or {}).get(str(a)) or []
            if 'A' in strat and dl:
                # one query per reference path of a non-event step: consulted guard sites fixed; the throwing position fixed to the
                # one the path throws at, or constrained to be none of the positions the path passes (complete partition)
                seen_ = set()
                for d in dl:
                    mask = sum(1 << s_ for s_, _ in d if s_ < 1000); val = sum(1 << s_ for s_, v in d if v and s_ < 1000)
                    thrown = [s_ - 1000 for s_, v in d if s_ >= 1000 and v]
                    passed = [s_ - 1000 for s_, v in d if s_ >= 1000 and not v]
                    ts = ('=', thrown[0]) if thrown else ('!', tuple(sorted(passed)))
                    if (mask, val, ts) in seen_: continue
                    seen_.add((mask, val, ts)); subs.append((None, (mask, val, ts), a))
            else:
                subs.append((None, None, a))
    else:
        subs = [(None, None, None)]
    if ix.get('copy_modes') and 'k' in strat:
        # C15: one query per copy operation and per driven machine
        subs = [(k, g, (sel, cm, w)) for (k, g, sel) in subs for cm in ix['copy_modes'] for w in ((0, 1) if cm < 2 else (1,))]
    def one(sub):
        k, gfix, sel = sub
        xtra = []
        if isinstance(sel, tuple):
            sel, cm, w = sel
            xtra += ['-DVF_CMODE=%d' % cm, '-DVF_WHICH=%d' % w]
        if sel is not None: xtra += ['-DVF_SEL=%d' % sel]
        if gfix is not None and len(gfix) == 3:
            ts = gfix[2]; gfix = gfix[:2]
            if ts[0] == '=': xtra += ['-DVF_TSITE=%d' % ts[1]]
            elif ts[1]: xtra += ['-DVF_TSITE_COND=(%s)' % '&&'.join('t!=%d' % x for x in ts[1])]
        r = cbmc_once(job, strat, k, True, False, timeout, gfix, xtra)
        if r['verdict'] == 'failed' and any('witness:reachable' not in f[1] for f in r['failed']):
            # obtain one counterexample per failed assertion
            r2 = cbmc_once(job, strat, k, False, True, timeout * 2, gfix, xtra)
            r['traces'] = r2.get('traces', {})
            r['time'] += r2['time']
        return r
    if len(subs) == 1: return merge_results([one(subs[0])])
    with cf.ThreadPoolExecutor(min(12, len(subs))) as ex:
        rs = list(ex.map(one, subs))
    return merge_results(rs)


def run_job(job, force=None):
    u = job.unit
    key = '%s|be%s|p%d' % (u.name, u.be, job.h)
    base = job.strats or STRATS
    first = HINTS.get(key, base[0])
    order = [first] + [x for x in base if x != first]
    if force: order = [force]; job.cex = []
    tried = []
    r = None
    for strat in order:
        r = attempt(job, strat, job.timeout)
        tried.append((strat, r['verdict'], round(r['time'], 1)))
        if r['verdict'] not in ('timeout',): break
    r['strategy'] = tried[-1][0]; r['tried'] = tried
    job.res = r
    real_fail = [f for f in r['failed'] if 'witness:reachable' not in f[1]]
    r['witness_ok'] = any('witness:reachable' in f[1] for f in r['failed'])
    r['real_failed'] = real_fail
    if r['verdict'] == 'failed' and not real_fail: r['verdict'] = 'success'
    if r['verdict'] == 'failed':
        seen = set()
        for pid, desc in real_fail:
            if (pid, desc) in seen: continue
            seen.add((pid, desc))
            job.cex.append({'cbmc_property': pid, 'label': desc, 'inputs': r.get('traces', {}).get(pid)})
    return job


def prepare_unit(u, seed, validate_n):
    u.build_real(); u.lower(); u.build_gen()
    u.validated = u.validate(seed, validate_n)
    return u


def load_known():
    p = os.path.join(VERIF, 'known_findings.json')
    if not os.path.exists(p): return []
    return json.load(open(p)).get('findings', [])


def match_known(known, prop, rec):
    for k in known:
        if k.get('status') != 'open': continue
        if k['property'] != prop: continue
        if k.get('program') and k['program'] != rec['program']: continue
        if k.get('backends') and rec['be'] not in k['backends']: continue
        if k.get('conf_re') and not re.search(k['conf_re'], rec['conf']): continue
        if k.get('label_re') and not re.search(k['label_re'], rec['label']): continue
        if k.get('kinds') is not None and rec['inputs'] is not None and rec.get('kind') not in k['kinds']: continue
        if k.get('inputs_eq') and (rec['inputs'] is None or any(int(i) >= len(rec['inputs']) or rec['inputs'][int(i)] != v for i, v in k['inputs_eq'].items())): continue
        return k
    return None


def uses_undef(u):
    try: return any('LL2C_UNDEF()' in open(pt['genc'] if 'genc' in pt else u.genc).read() for pt in u.parts)
    except Exception: return False


def replay_native(u, h, inputs):
    rc, out = u.run_native(u.exe_real, h, inputs, True)
    return rc, out


class Check:
    """collects units and jobs for one property run and produces verdict + evidence"""
    def __init__(s, prop, tier, seed, level='model_checking'):
        s.prop = prop; s.tier = tier; s.seed = seed; s.level = level
        s.units = []; s.jobs = []; s.t0 = time.time()
        s.assumptions = []
        s.notes = []
        s.bounds = {}
        s.extra_cov = {}
        s.model_edges = 0

    def add_unit(s, u): s.units.append(u)

    def prepare(s, validate_n=4):
        log('[%s] building %d harness TUs (g++ twin, clang -O1 IR, ll2c, gcc of generated C, translator validation)' % (s.prop, len(s.units)))
        with cf.ThreadPoolExecutor(NPAR) as ex:
            futs = [ex.submit(prepare_unit, u, s.seed, validate_n) for u in s.units]
            for f in futs: f.result()
        s.t_build = time.time() - s.t0

    def solve(s):
        # configurations for which no strategy gives a verdict within the budget are listed in not_decided.json
        # (committed, written only with VF_LEARN=1): they are skipped and reported, never counted as success
        s.skipped = []
        keep = []
        for j in s.jobs:
            k = '%s|be%s' % (j.unit.name, j.unit.be)
            if j.unit.index[j.h]['conf'] in NOT_DECIDED.get(k, []): s.skipped.append('%s: %s' % (k, j.unit.index[j.h]['conf']))
            else: keep.append(j)
        s.jobs = keep
        log('[%s] %d CBMC queries on %d workers (%d configurations listed as not decided are skipped)' % (s.prop, len(s.jobs), NPAR, len(s.skipped)))
        t = time.time()
        with cf.ThreadPoolExecutor(NPAR) as ex:
            list(ex.map(run_job, s.jobs))
        # a failed query in a configuration for which an open known finding is registered is proved again with exactly the
        # registered inputs excluded (the finding's "exclude" condition over K = event kind, T = throwing position, W = driven
        # machine, M = copy mode): a different violation in the same configuration is then still found and reported
        known = [k for k in load_known() if k.get('status') == 'open' and k['property'] == s.prop and k.get('exclude')]
        redo = []
        for j in s.jobs:
            if j.res['verdict'] != 'failed': continue
            for k in known:
                if (not k.get('program') or k['program'] == j.unit.name) and (not k.get('backends') or j.unit.be in k['backends']) \
                        and (not k.get('conf_re') or re.search(k['conf_re'], j.unit.index[j.h]['conf'])):
                    j2 = Job(j.unit, j.h, unwind=j.unwind, timeout=j.timeout0, extra=tuple(j.extra) + ('-DVF_EXCLUDE=(%s)' % k['exclude'],), strats=[j.res.get('strategy', 'n')] + list(j.strats or STRATS))
                    j2.label = j.label; j.excl = j2; redo.append(j2); break
        if redo:
            log('[%s] %d failed queries in configurations with a registered known finding are proved again with the registered inputs excluded' % (s.prop, len(redo)))
            with cf.ThreadPoolExecutor(NPAR) as ex:
                list(ex.map(run_job, redo))
        s.t_solve = time.time() - t

    def finish(s, samples_extra=None):
        known = load_known()
        violations = []; knowns = []; inconclusive = []
        nontrivial = 0
        solver_s = 0.0; vccs = 0; vccs_rem = 0; props = 0
        os.makedirs(os.path.join(VERIF, 'replays'), exist_ok=True)
        for j in list(s.jobs) + [j.excl for j in s.jobs if getattr(j, 'excl', None)]:
            r = j.res
            solver_s += r.get('solver_s', 0.0) or 0.0
            if r.get('vccs'): vccs += r['vccs'][0]; vccs_rem += r['vccs'][1]
            props += r.get('nprops', 0)
            if r['verdict'] in ('error', 'timeout'):
                inconclusive.append((j, r['verdict'])); continue
            if r['verdict'] == 'success' and not r['witness_ok']:
                inconclusive.append((j, 'witness not reachable (vacuous harness)')); continue
            if r['witness_ok']: nontrivial += 1
            unw = [f for f in r['real_failed'] if 'unwinding assertion' in f[1]]
            if unw: inconclusive.append((j, 'unwinding bound too small: %s' % unw[0][1])); continue
            for cex in j.cex:
                u = j.unit
                rec = {'property': s.prop, 'tier': s.tier, 'program': u.name, 'be': u.be, 'backend': BE_NAMES.get(u.be, str(u.be)), 'harness': j.h,
                       'conf': u.index[j.h]['conf'], 'script': u.index[j.h]['script'], 'label': cex['label'],
                       'inputs': cex['inputs'], 'unit_opts': getattr(u, 'spec', None)}
                if cex['inputs'] is None:
                    inconclusive.append((j, 'no trace for failed property %s' % cex['cbmc_property'])); continue
                rec['kind'] = cex['inputs'][1] if u.be != 'K' else None
                lab = cex['label']
                if MEMSAFE.search(lab):
                    # CBMC's own memory-safety properties: replay on an AddressSanitizer build of the real code
                    rc, out = u.run_native_asan(j.h, cex['inputs'])
                    reproduced = rc not in (0, 77) and 'AddressSanitizer' in out
                    if reproduced:
                        m_ = re.search(r'ERROR: AddressSanitizer: ([a-z-]+(?: [a-z-]+)?)', out)
                        lab = rec['label'] = 'memory-safety:' + (m_.group(1) if m_ else 'asan')
                    out = out[:1500]
                elif 'pointer arithmetic' in lab or 'pointer relation' in lab:
                    # pointer-overflow style findings never reproduce under sanitizers: reported separately, not as violations
                    inconclusive.append((j, 'pointer-arithmetic finding (not replayable): ' + lab[:120])); continue
                else:
                    rc, out = replay_native(u, j.h, cex['inputs'])
                    reproduced = ('CHECK-FAILED ' + lab) in out or (lab.startswith('env:') and rc not in (0, 1, 77)) or \
                                 (rc not in (0, 77) and 'CHECK-FAILED' in out and lab.split(':')[0] in out)
                if not reproduced and u.be != 'K' and not MEMSAFE.search(lab) and uses_undef(u):
                    # the translation unit contains indeterminate values (LLVM undef -> nondet): replay under MemorySanitizer
                    rc2, out2 = u.run_native_msan(j.h, cex['inputs'])
                    m_ = re.search(r'MemorySanitizer: use-of-uninitialized-value\s*\n\s*#0 \S+ in (.{0,200}?) (/\S+:\d+)', out2)
                    if m_ and '/boost/msm/' in m_.group(2):
                        reproduced = True
                        lab = rec['label'] = 'uninitialised-value at %s (%s)' % (m_.group(2).replace('/repo/include/', ''), lab)
                        out = out2[:1500]
                rec['native_output'] = out[-1500:]
                if not reproduced:
                    inconclusive.append((j, 'counterexample for "%s" did not reproduce on the native build (encoding error?) inputs=%s' % (lab, cex['inputs'][:6])))
                    continue
                k = match_known(known, s.prop, rec)
                if k: knowns.append((rec, k))
                else: violations.append(rec)
        # de-duplicate violations by (program, be, harness, label)
        seen = set(); uv = []
        for v in violations:
            key = (v['program'], v['be'], v['harness'], v['label'])
            if key in seen: continue
            seen.add(key); uv.append(v)
        violations = uv
        wall = time.time() - s.t0
        if os.environ.get('VF_LEARN_ND'):
            for j, why in inconclusive:
                if why == 'timeout' or why.startswith('unwinding bound too small'):
                    k = '%s|be%s' % (j.unit.name, j.unit.be)
                    NOT_DECIDED.setdefault(k, [])
                    if j.unit.index[j.h]['conf'] not in NOT_DECIDED[k]: NOT_DECIDED[k].append(j.unit.index[j.h]['conf'])
            json.dump(NOT_DECIDED, open(ND_PATH, 'w'), indent=1, sort_keys=True)
        if os.environ.get('VF_LEARN'):
            for j in s.jobs:
                k = '%s|be%s|p%d' % (j.unit.name, j.unit.be, j.h)
                if j.res.get('strategy', 'n') != 'n' and j.res['verdict'] == 'success': HINTS[k] = j.res['strategy']
                elif k in HINTS and j.res.get('strategy') == 'n': del HINTS[k]
            json.dump(HINTS, open(HINTS_PATH, 'w'), indent=0, sort_keys=True)
        for rec, k in knowns[:50]:
            pass
        printed = set()
        for rec, k in knowns:
            if k['id'] in printed: continue
            printed.add(k['id'])
            log('KNOWN-FINDING: property=%s %s [%s]' % (s.prop, k['what'], k['id']))
        vpaths = []
        for n, v in enumerate(violations):
            name = '%s-%s-be%s-p%d-%s.json' % (s.prop, v['program'], v['be'], v['harness'], hashlib.md5(v['label'].encode()).hexdigest()[:6])
            path = os.path.join(VERIF, 'replays', name)
            json.dump(v, open(path, 'w'), indent=1)
            vpaths.append(path)
            log('VIOLATION property=%s replay=%s' % (s.prop, path))
            log('  %s / %s / %s / kind=%s: %s' % (v['program'], v['backend'], v['conf'], v['kind'], v['label']))
        for j, why in inconclusive[:20]:
            log('INCONCLUSIVE %s be%s harness %d (%s): %s' % (j.unit.name, j.unit.be, j.h, j.label, why))
            if j.res['verdict'] == 'error': log(j.res['raw_tail'][-800:])
        funcs = set()
        for u in s.units:
            for f in u.functions: funcs.add(f)
        samples = []
        for j in s.jobs[:3]:
            samples.append({'program': j.unit.name, 'backend': BE_NAMES.get(j.unit.be, str(j.unit.be)), 'pre_state': j.unit.index[j.h]['conf'],
                            'prefix_script': j.unit.index[j.h]['script'], 'symbolic': 'event kind, 32-bit payload, one bit per guard site',
                            'verdict': j.res['verdict'], 'vccs': j.res.get('vccs'), 'cbmc_s': round(j.res['time'], 2), 'strategy': j.res.get('strategy')})
        if samples_extra: samples += samples_extra
        ev = {
            'property_id': s.prop, 'tier': s.tier, 'seed': s.seed, 'level': s.level,
            'coverage': {
                'states': max(1, len(s.jobs)),
                'transitions': max(1, s.model_edges),
                'traces_validated_against_impl': sum(getattr(u, 'validated', 0) for u in s.units),
                'evaluations': len(s.jobs),
                'distinct_nontrivial': nontrivial,
                'rule': 'one CBMC query per (harness machine, back-end, reachable abstract configuration); inside a query the event kind, '
                        'payload and every guard result are solver variables; a query is non-trivial iff its -DWITNESS assert(0) at the end of the harness is reported reachable',
                'samples': samples,
                'exhaustive': False,
                'programs': len(set(u.name for u in s.units)), 'program_names': sorted(set(u.name for u in s.units)),
                'back_ends': sorted(set(BE_NAMES.get(u.be, str(u.be)) for u in s.units)),
                'queries': len(s.jobs), 'queries_success': sum(1 for j in s.jobs if j.res['verdict'] == 'success'),
                'vccs_generated': vccs, 'vccs_after_simplification': vccs_rem,
                'solver_s': round(solver_s, 2), 'cbmc_wall_s': round(getattr(s, 't_solve', 0), 1), 'build_s': round(getattr(s, 't_build', 0), 1),
                'functions_encoded': len(funcs),
                'functions_encoded_msm_sample': demangle_sample(funcs),
                'bounds': s.bounds,
                'inconclusive': [('%s be%s p%d' % (j.unit.name, j.unit.be, j.h), why) for j, why in inconclusive],
                'known_findings_hit': sorted(set(k['id'] for _, k in knowns)),
                'not_decided_skipped': getattr(s, 'skipped', []),
                'strategies_used': {st: sum(1 for j in s.jobs if j.res.get('strategy') == st) for st in STRATS},
            },
            'assumptions': s.assumptions + [
                'claim is per catalogue machine and back-end, for all inputs of one step from each enumerated reachable configuration (induction over histories, DESIGN 1.4)',
                'IR: clang++-14 -O1 -DNDEBUG (-fno-exceptions unless stated) of /repo/include; tied to the g++ build only behaviourally (translator validation runs)',
                'environment stubs: fixed-capacity index-based queue containers, operator new never fails, std::stable_sort contract stub',
                'cbmc 6.11 --unwind with --unwinding-assertions; any unwinding/conversion failure makes the check exit 2, never 0',
            ],
            'wall_s': round(wall, 1),
            'violations': len(violations),
        }
        ev['coverage'].update(s.extra_cov)
        os.makedirs(os.path.join(VERIF, 'evidence'), exist_ok=True)
        json.dump(ev, open(getattr(s, 'evidence_path', None) or os.path.join(VERIF, 'evidence', s.prop + '.json'), 'w'), indent=1)
        log('[%s] tier=%s queries=%d success=%d nontrivial=%d known=%d violations=%d inconclusive=%d wall=%.0fs (build %.0fs, cbmc %.0fs, solver %.1fs)' % (
            s.prop, s.tier, len(s.jobs), ev['coverage']['queries_success'], nontrivial, len(knowns), len(violations), len(inconclusive), wall,
            getattr(s, 't_build', 0), getattr(s, 't_solve', 0), solver_s))
        if violations: return 1
        if inconclusive: return 2
        return 0


def demangle_sample(funcs, n=40):
    names = sorted(f.strip('"') for f in funcs if 'msm' in f)
    if not names: return []
    try:
        p = runner.subprocess.run(['c++filt'], input='\n'.join(names).encode(), stdout=runner.subprocess.PIPE)
        dem = p.stdout.decode().split('\n')
    except Exception:
        dem = names
    short = []
    for d in dem:
        d = re.sub(r'\(anonymous namespace\)::', '', d)
        m = re.search(r'boost::msm::[a-z0-9_]+::(?:detail::)?([A-Za-z_0-9]+)', d)
        if m:
            tail = re.findall(r'::([a-z_A-Z0-9]+)(?:<[^()]*>)?\(', d)
            short.append(m.group(0).split('<')[0] + ('::' + tail[-1] if tail else ''))
    return sorted(set(short))[:n]

"""build / lower / validate / CBMC fan-out / replay / evidence"""
import os, sys, subprocess, time, json, re, shutil, random, concurrent.futures as cf

VERIF = os.path.dirname(os.path.dirname(os.path.abspath(__file__)))
REPO_INC = os.environ.get('VF_REPO_INC', '/repo/include')
BE_NAMES = {0: 'back', 1: 'back+favor_compile_time', 2: 'back11', 3: 'backmp11/flat_fold',
            4: 'backmp11/function_pointer_array', 5: 'backmp11/favor_compile_time'}
CXXFLAGS = ['-std=c++17', '-DNDEBUG', '-I' + os.path.join(VERIF, 'stubs'), '-I' + REPO_INC, '-w']
CLANG_LOWER = ['clang++-14', '-O1', '-fno-vectorize', '-fno-slp-vectorize', '-fno-unroll-loops', '-S', '-emit-llvm']
CBMC_FLAGS = ['--unwinding-assertions', '--pointer-check', '--bounds-check', '--pointer-overflow-check',
              '--drop-unused-functions', '--no-malloc-may-fail' if False else '--malloc-may-fail']
CBMC_FLAGS = ['--unwinding-assertions', '--pointer-overflow-check', '--drop-unused-functions', '--object-bits', '12']
if os.environ.get('VF_PATHS'): CBMC_FLAGS += ['--paths', 'lifo']


class VfError(Exception):
    pass


def workdir():
    w = os.environ.get('VF_WORK') or '/dev/shm/vfwork.%d' % os.getpid()
    os.makedirs(w, exist_ok=True)
    return w


def run(cmd, timeout=None, cwd=None, env=None, memlimit_gb=None):
    t0 = time.time()
    pre = None
    if memlimit_gb:
        import resource
        lim = int(memlimit_gb * (1 << 30))
        def pre(): resource.setrlimit(resource.RLIMIT_AS, (lim, lim))
    try:
        p = subprocess.run(cmd, stdout=subprocess.PIPE, stderr=subprocess.STDOUT, timeout=timeout, cwd=cwd,
                           env=env, preexec_fn=pre)
        return p.returncode, p.stdout.decode('utf-8', 'replace'), time.time() - t0
    except subprocess.TimeoutExpired as e:
        return -9, (e.stdout or b'').decode('utf-8', 'replace') + '\nTIMEOUT', time.time() - t0


class Unit:
    """one harness (program x back-end) with its generated C harness.  parts: the C++ TUs linked into it
    (one normally; two for product harnesses, each translated with its own symbol prefix)"""
    def __init__(s, name, be, cpp_text, harness_text, index, exc=False, extra_flags=(), parts=None, rt_files=None):
        s.name = name; s.be = be; s.index = index; s.exc = exc
        s.dir = os.path.join(workdir(), '%s_be%s' % (name, be))
        os.makedirs(s.dir, exist_ok=True)
        s.hc = os.path.join(s.dir, 'harness.c')
        open(s.hc, 'w').write(harness_text)
        if parts is None: parts = [('', cpp_text, ['-DVF_BE=%d' % be] + list(extra_flags), '')]
        s.parts = []
        for suf, text, flags, pfx in parts:
            cpp = os.path.join(s.dir, 'tu%s.cpp' % suf)
            open(cpp, 'w').write(text)
            s.parts.append({'suf': suf, 'cpp': cpp, 'flags': list(flags), 'pfx': pfx,
                            'll': os.path.join(s.dir, 'tu%s.ll' % suf), 'genc': os.path.join(s.dir, 'tu%s_gen.c' % suf)})
        s.cpp = s.parts[0]['cpp']; s.ll = s.parts[0]['ll']; s.genc = s.parts[0]['genc']
        s.rt_files = rt_files or [VERIF + '/harness/vf_harness.c']
        s.exe_real = os.path.join(s.dir, 'real'); s.exe_gen = os.path.join(s.dir, 'gen')
        s.functions = []
        s.nevents = 4
        s.times = {}

    def excflag(s): return [] if s.exc else ['-fno-exceptions']

    def build_real(s):
        objs = []
        for pt in s.parts:
            o = s.dir + '/tu%s.o' % pt['suf']
            fl = list(pt['flags']) + (['-DVF_PFX=g%s' % pt['pfx'].rstrip('_')] if pt['pfx'] else [])
            rc, out, t = run(['g++', '-O1', '-c', pt['cpp'], '-o', o] + CXXFLAGS + fl + s.excflag())
            s.times['g++'] = s.times.get('g++', 0) + t
            if rc: raise VfError('g++ failed for %s be%s:\n%s' % (s.name, s.be, out[-3000:]))
            objs.append(o)
        for k, src in enumerate([s.hc] + s.rt_files):
            o = s.dir + '/h_real%d.o' % k
            rc, out, t = run(['gcc', '-O1', '-c', src, '-o', o, '-I' + VERIF + '/harness'])
            if rc: raise VfError('gcc harness failed:\n' + out[-3000:])
            objs.append(o)
        rc, out, t = run(['g++'] + objs + ['-o', s.exe_real])
        if rc: raise VfError('link real failed:\n' + out[-3000:])

    def lower(s):
        s.functions = []
        for pt in s.parts:
            rc, out, t = run(CLANG_LOWER + [pt['cpp'], '-o', pt['ll']] + CXXFLAGS + pt['flags'] + s.excflag())
            s.times['clang'] = s.times.get('clang', 0) + t
            if rc: raise VfError('clang failed for %s be%s:\n%s' % (s.name, s.be, out[-3000:]))
            cmd = [sys.executable, VERIF + '/tools/ll2c.py', pt['ll']] + (['--prefix', pt['pfx']] if pt['pfx'] else [])
            rc, out, t = run(cmd, timeout=600)
            s.times['ll2c'] = s.times.get('ll2c', 0) + t
            if rc: raise VfError('ll2c failed for %s be%s:\n%s' % (s.name, s.be, out[-3000:]))
            open(pt['genc'], 'w').write(out)
            # functions encoded (defined in IR)
            s.functions += re.findall(r'^define [^@]*@("?[^"(\s]+"?)\(', open(pt['ll']).read(), re.M)

    def c_sources(s):
        return [pt['genc'] for pt in s.parts] + [s.hc] + s.rt_files + [VERIF + '/tools/rt.c']

    def build_gen(s):
        inc = ['-I' + VERIF + '/harness', '-I' + VERIF + '/tools']
        rc, out, t = run(['gcc', '-O0', '-w', '-falign-functions=16', '-DGEN'] + s.c_sources() + ['-o', s.exe_gen] + inc)
        s.times['gcc-gen'] = t
        if rc: raise VfError('gcc of generated C failed for %s be%s:\n%s' % (s.name, s.be, out[-3000:]))

    def run_native_asan(s, h, inputs):
        """memory-safety counterexamples are replayed on an AddressSanitizer build of the real C++ TU"""
        exe = os.path.join(s.dir, 'real_asan')
        if not os.path.exists(exe):
            objs = []
            for pt in s.parts:
                o = s.dir + '/tu%s_asan.o' % pt['suf']
                fl = list(pt['flags']) + (['-DVF_PFX=g%s' % pt['pfx'].rstrip('_')] if pt['pfx'] else [])
                rc, out, t = run(['g++', '-O1', '-g', '-fsanitize=address', '-c', pt['cpp'], '-o', o] + CXXFLAGS + fl + s.excflag())
                if rc: raise VfError('g++ asan failed:\n' + out[-2000:])
                objs.append(o)
            rc, out, t = run(['g++', '-fsanitize=address'] + objs + [s.hc] + s.rt_files + ['-x', 'none', '-I' + VERIF + '/harness', '-o', exe])
            if rc:
                rc, out, t = run(['gcc', '-fsanitize=address', '-c', s.hc, '-o', s.dir + '/h_asan.o', '-I' + VERIF + '/harness'])
                objs2 = [s.dir + '/h_asan.o']
                for k, src in enumerate(s.rt_files):
                    run(['gcc', '-fsanitize=address', '-c', src, '-o', s.dir + '/rt_asan%d.o' % k, '-I' + VERIF + '/harness']); objs2.append(s.dir + '/rt_asan%d.o' % k)
                rc, out, t = run(['g++', '-fsanitize=address'] + objs + objs2 + ['-o', exe])
                if rc: raise VfError('link asan failed:\n' + out[-2000:])
        rc, out, t = run([exe, str(h)] + [str(x) for x in inputs], timeout=60)
        return rc, out

    def run_native_msan(s, h, inputs):
        """counterexamples that depend on an indeterminate value (LLVM undef, modelled as nondet by ll2c) do not replay on an
        ordinary build: they are replayed on a MemorySanitizer build of the real C++ TU, which reports the use of the
        uninitialised value itself"""
        exe = os.path.join(s.dir, 'real_msan')
        if not os.path.exists(exe):
            objs = []
            for pt in s.parts:
                o = s.dir + '/tu%s_msan.o' % pt['suf']
                fl = list(pt['flags']) + (['-DVF_PFX=g%s' % pt['pfx'].rstrip('_')] if pt['pfx'] else [])
                rc, out, t = run(['clang++-14', '-O1', '-g', '-fsanitize=memory', '-fno-omit-frame-pointer', '-c', pt['cpp'], '-o', o] + CXXFLAGS + fl + s.excflag())
                if rc: raise VfError('clang++ msan failed:\n' + out[-2000:])
                objs.append(o)
            for k, src in enumerate([s.hc] + s.rt_files):
                o = s.dir + '/h_msan%d.o' % k
                rc, out, t = run(['clang-14', '-O1', '-g', '-fsanitize=memory', '-c', src, '-o', o, '-I' + VERIF + '/harness'])
                if rc: raise VfError('clang msan harness failed:\n' + out[-2000:])
                objs.append(o)
            rc, out, t = run(['clang++-14', '-fsanitize=memory'] + objs + ['-o', exe])
            if rc: raise VfError('link msan failed:\n' + out[-2000:])
        rc, out, t = run([exe, str(h)] + [str(x) for x in inputs], timeout=60)
        return rc, out

    def run_native(s, exe, h, inputs, printlog=False):
        env = dict(os.environ)
        if printlog: env['VF_PRINT'] = '1'
        rc, out, t = run([exe, str(h)] + [str(x) for x in inputs], timeout=20, env=env)
        return rc, out

    def validate(s, seed, n=6):
        """translator validation: generated C (gcc) vs real C++ (g++) must print identical logs"""
        rnd = random.Random(seed)
        cnt = 0
        for h in range(len(s.index)):
            for k in range(n):
                ins = [rnd.getrandbits(32) for _ in range(16)]
                ins[0] = 0 if rnd.random() < 0.8 else rnd.randrange(0, 3); ins[1] = rnd.randrange(0, s.nevents)
                ra, oa = s.run_native(s.exe_real, h, ins, True)
                rb, ob = s.run_native(s.exe_gen, h, ins, True)
                if ra == 77 and rb == 77: continue
                # a trap of an environment stub (container capacity exceeded, library abort): the real build dies of the trap
                # instruction, the translation reports it - same event, nothing to compare; CBMC reports such a path as env:trap
                if ra < 0 and 'LL2C-FAIL env:trap' in ob: continue
                cnt += 1
                if ra != rb or oa != ob:
                    raise VfError('TRANSLATOR MISMATCH %s be%s harness %d inputs %s\n--- real\n%s\n--- gen\n%s' % (s.name, s.be, h, ins, oa, ob))
        return cnt

    def cbmc(s, h, witness=False, timeout=120, unwind=6, extra=(), trace=True, mem_gb=16):
        inc = ['-I' + VERIF + '/harness', '-I' + VERIF + '/tools']
        cmd = ['cbmc'] + s.c_sources() + ['-DGEN', '--function', 'harness_p%d' % h,
               '--unwind', str(unwind)] + CBMC_FLAGS + inc + list(extra)
        if witness: cmd += ['-DWITNESS']
        if trace: cmd += ['--trace']
        rc, out, t = run(cmd, timeout=timeout, memlimit_gb=mem_gb)
        return parse_cbmc(rc, out, t)


def parse_cbmc(rc, out, t):
    res = {'rc': rc, 'time': t, 'failed': [], 'verdict': 'error', 'inputs': None, 'vccs': None, 'raw_tail': out[-1500:]}
    m = re.search(r'Generated (\d+) VCC\(s\), (\d+) remaining', out)
    if m: res['vccs'] = (int(m.group(1)), int(m.group(2)))
    m = re.search(r'(\d+) variables, (\d+) clauses', out)
    if m: res['sat_size'] = (int(m.group(1)), int(m.group(2)))
    m = re.search(r'Runtime Solver: ([0-9.e+-]+)s', out)
    if m: res['solver_s'] = float(m.group(1))
    res['nprops'] = len(re.findall(r': (?:SUCCESS|FAILURE)$', out, re.M))
    if 'TIMEOUT' in out and rc == -9: res['verdict'] = 'timeout'; return res
    # memory exhaustion (RLIMIT_AS) is a resource limit like the time budget: the next strategy of the chain is tried
    if re.search(r'Out of memory|std::bad_alloc', out): res['verdict'] = 'timeout'; res['resource'] = 'memory'; return res
    if re.search(r'PARSING ERROR|CONVERSION ERROR|\(error|Usage error|file .* not found', out): res['verdict'] = 'error'; return res
    if 'VERIFICATION' not in out and 'Starting Bounded Model Checking' in out: res['verdict'] = 'timeout'; res['resource'] = 'died (memory limit)'; return res
    for m in re.finditer(r'^\[([^\]]+)\] (?:line \d+ )?(.*): FAILURE$', out, re.M):
        res['failed'].append((m.group(1), m.group(2)))
    if 'VERIFICATION SUCCESSFUL' in out: res['verdict'] = 'success'
    elif 'VERIFICATION FAILED' in out:
        res['verdict'] = 'failed'
        traces = {}
        parts = re.split(r'^Trace for ([^\n:]+):\s*$', out, flags=re.M)
        for i in range(1, len(parts), 2):
            ins = {}
            for m in re.finditer(r'vf_inputs\[(\d+)l?\]=(\d+)', parts[i + 1]):
                ins[int(m.group(1))] = int(m.group(2))
            traces[parts[i].strip()] = [ins.get(k, 0) for k in range(16)]
        res['traces'] = traces
    return res


class KernelUnit:
    """a leaf kernel: one hand-written C++ TU exporting extern "C" wrappers around real library code + one C harness.
    'variants' are -D flag lists (pre-state script, type pair, ...); harness index h = variant h."""
    def __init__(s, name, cpp_path, harness_path, entry, variants, labels, unwind=12, cxxstd='-std=c++17', extra_cbmc=()):
        s.name = name; s.be = 'K'; s.entry = entry; s.variants = variants; s.unwind = unwind; s.extra_cbmc = list(extra_cbmc)
        s.dir = os.path.join(workdir(), name)
        os.makedirs(s.dir, exist_ok=True)
        s.cpp = cpp_path; s.hc = harness_path; s.cxxstd = cxxstd
        s.ll = os.path.join(s.dir, 'k.ll'); s.genc = os.path.join(s.dir, 'k_gen.c')
        s.index = [{'harness': entry, 'conf': labels[i], 'script': variants[i], 'paths': 0, 'decs_by_kind': {}} for i in range(len(variants))]
        s.functions = []; s.nevents = 1; s.times = {}; s.validated = 0
        s._real = {}

    def flags(s): return [s.cxxstd, '-DNDEBUG', '-I' + REPO_INC, '-I' + os.path.join(VERIF, 'stubs'), '-w', '-fno-exceptions']

    def build_real(s):
        rc, out, t = run(['g++', '-O1', '-c', s.cpp, '-o', s.dir + '/k.o'] + s.flags())
        if rc: raise VfError('g++ failed for kernel %s:\n%s' % (s.name, out[-3000:]))

    def lower(s):
        rc, out, t = run(CLANG_LOWER + [s.cpp, '-o', s.ll] + s.flags())
        if rc: raise VfError('clang failed for kernel %s:\n%s' % (s.name, out[-3000:]))
        rc, out, t = run([sys.executable, VERIF + '/tools/ll2c.py', s.ll], timeout=600)
        if rc: raise VfError('ll2c failed for kernel %s:\n%s' % (s.name, out[-3000:]))
        open(s.genc, 'w').write(out)
        s.functions = re.findall(r'^define [^@]*@("?[^"(\s]+"?)\(', open(s.ll).read(), re.M)

    def build_gen(s): pass

    def exe(s, h, gen):
        key = (h, gen)
        if key in s._real: return s._real[key]
        exe = os.path.join(s.dir, '%s_%d' % ('gen' if gen else 'real', h))
        if gen:
            cmd = ['gcc', '-O0', '-w', '-falign-functions=16', '-DGEN', s.genc, s.hc, VERIF + '/tools/rt.c', '-I' + VERIF + '/tools', '-I' + VERIF + '/harness', '-o', exe] + s.variants[h]
            rc, out, t = run(cmd)
        else:
            rc, out, t = run(['gcc', '-O1', '-c', s.hc, '-o', exe + '.o', '-I' + VERIF + '/harness'] + s.variants[h])
            if not rc: rc, out, t = run(['g++', s.dir + '/k.o', exe + '.o', '-o', exe])
        if rc: raise VfError('native build of kernel %s variant %d failed:\n%s' % (s.name, h, out[-2000:]))
        s._real[key] = exe
        return exe

    def run_native(s, exe_unused, h, inputs, printlog=False):
        rc, out, t = run([s.exe(h, False)] + [str(x) for x in inputs], timeout=20)
        return rc, out

    exe_real = None

    def run_native_asan(s, h, inputs):
        exe = os.path.join(s.dir, 'asan_%d' % h)
        if not os.path.exists(exe):
            rc, out, t = run(['g++', '-O1', '-g', '-fsanitize=address', '-c', s.cpp, '-o', s.dir + '/k_asan.o'] + s.flags())
            if rc: raise VfError('g++ asan failed:\n' + out[-2000:])
            rc, out, t = run(['gcc', '-fsanitize=address', '-c', s.hc, '-o', exe + '.o', '-I' + VERIF + '/harness'] + s.variants[h])
            if not rc: rc, out, t = run(['g++', '-fsanitize=address', s.dir + '/k_asan.o', exe + '.o', '-o', exe])
            if rc: raise VfError('asan build failed:\n' + out[-2000:])
        rc, out, t = run([exe] + [str(x) for x in inputs], timeout=60)
        return rc, out

    def validate(s, seed, n=4):
        rnd = random.Random(seed); cnt = 0
        hs = list(range(len(s.variants))); rnd.shuffle(hs)
        for h in hs[:3]:
            for k in range(n * 4):
                ins = [rnd.randrange(0, 6), rnd.randrange(0, 3), rnd.randrange(0, 3), rnd.randrange(0, 2)] + [rnd.getrandbits(31) for _ in range(12)]
                ra, oa, _ = run([s.exe(h, False)] + [str(x) for x in ins], timeout=20)
                rb, ob, _ = run([s.exe(h, True)] + [str(x) for x in ins], timeout=20)
                if ra == 77 and rb == 77: continue
                cnt += 1
                if ra != rb or oa != ob:
                    raise VfError('TRANSLATOR MISMATCH kernel %s variant %d inputs %s\n--- real\n%s\n--- gen\n%s' % (s.name, h, ins, oa, ob))
        return cnt

    def cbmc(s, h, witness=False, timeout=120, unwind=None, extra=(), trace=True, mem_gb=16):
        cmd = ['cbmc', s.genc, s.hc, VERIF + '/tools/rt.c', '-DGEN', '--function', s.entry, '--unwind', str(s.unwind)] + CBMC_FLAGS + \
              ['-I' + VERIF + '/tools', '-I' + VERIF + '/harness'] + s.variants[h] + s.extra_cbmc + [x for x in extra if not x.startswith('-DVF_')]
        if witness: cmd += ['-DWITNESS']
        if trace: cmd += ['--trace']
        rc, out, t = run(cmd, timeout=timeout, memlimit_gb=mem_gb)
        return parse_cbmc(rc, out, t)

"""Catalogue of harness machines (DESIGN.md section 5).  Each function returns a Program."""
from .model import *


def F1():
    m = Machine('F1', [['A', 'B', 'C']],
                [St('B', internal=[IRow('e1', act=8, guard=7), IRow('e2', act=9)])],
                [Row('A', 'e0', 'B', act=1, guard=1),
                 Row('A', 'e0', 'C', act=2, guard=2),
                 Row('A', 'e0', 'A', act=3, guard=3),
                 Row('A', 'e1', None, act=4, guard=4),
                 Row('B', 'e1', 'C', act=5),
                 Row('B', 'e0', 'A', None, guard=5),
                 Row('C', 'e2', 'A'),
                 Row('C', 'e0', None, act=6),
                 Row('B', 'e1', 'A', act=7, guard=6)],
                internal=[IRow('e2', act=10, guard=8), IRow('e2', act=11, guard=9)])
    return Program(m, ['e0', 'e1', 'e2'])


def R2():
    """two orthogonal regions; same event handled / guarded / unhandled per region"""
    m = Machine('R2', [['A1', 'A2'], ['B1', 'B2']], [],
                [Row('A1', 'e0', 'A2', act=1, guard=1),
                 Row('A2', 'e0', 'A1', act=2),
                 Row('B1', 'e0', 'B2', act=3, guard=2),
                 Row('B2', 'e1', 'B1', act=4, guard=3),
                 Row('A1', 'e1', None, act=5, guard=4),
                 Row('B1', 'e0', None, act=6, guard=5)],
                internal=[IRow('e0', act=7, guard=6), IRow('e2', act=8)])
    return Program(m, ['e0', 'e1', 'e2'])


def R3():
    m = Machine('R3', [['A1', 'A2'], ['B1', 'B2'], ['C1', 'C2']], [],
                [Row('A1', 'e0', 'A2', act=1, guard=1),
                 Row('A2', 'e1', 'A1', act=2),
                 Row('B1', 'e0', 'B2', act=3, guard=2),
                 Row('B2', 'e1', 'B1', act=4, guard=3),
                 Row('C1', 'e0', 'C2', act=5, guard=4),
                 Row('C2', 'e0', 'C1', act=6),
                 Row('C1', 'e1', None, act=7, guard=5)])
    return Program(m, ['e0', 'e1', 'e2'])


def H2():
    """outer + submachine with two regions + outer rows on the submachine for events the inner handles"""
    sub = Machine('Sub', [['S1', 'S2'], ['T1', 'T2']], [],
                  [Row('S1', 'e0', 'S2', act=1, guard=1),
                   Row('S2', 'e0', 'S1', act=2),
                   Row('T1', 'e0', 'T2', act=3, guard=2),
                   Row('T2', 'e1', 'T1', act=4, guard=3),
                   Row('S2', 'e1', None, act=5, guard=4)],
                  internal=[IRow('e1', act=6, guard=5), IRow('e2', act=7, guard=6)])
    m = Machine('H2', [['Idle', 'Sub', 'Other']],
                [St('Sub', kind='sub', sub=sub)],
                [Row('Idle', 'e3', 'Sub', act=10),
                 Row('Sub', 'e0', 'Other', act=11, guard=7),
                 Row('Sub', 'e1', None, act=12, guard=8),
                 Row('Sub', 'e2', 'Idle', act=13, guard=9),
                 Row('Sub', 'e3', 'Sub', act=14, guard=10),
                 Row('Other', 'e3', 'Idle', act=15),
                 Row('Other', 'e0', 'Sub', act=16, guard=11)],
                internal=[IRow('e1', act=17, guard=12)])
    return Program(m, ['e0', 'e1', 'e2', 'e3'])


def H3():
    """three levels: Top > Mid (2 regions) > Low (1 region)"""
    low = Machine('Low', [['L1', 'L2']], [],
                  [Row('L1', 'e0', 'L2', act=1, guard=1),
                   Row('L2', 'e0', 'L1', act=2, guard=2),
                   Row('L2', 'e1', None, act=3, guard=3)])
    mid = Machine('Mid', [['M1', 'Low'], ['N1', 'N2']],
                  [St('Low', kind='sub', sub=low)],
                  [Row('M1', 'e1', 'Low', act=4),
                   Row('Low', 'e0', 'M1', act=5, guard=4),
                   Row('Low', 'e2', 'M1', act=6),
                   Row('N1', 'e0', 'N2', act=7, guard=5),
                   Row('N2', 'e2', 'N1', act=8)])
    top = Machine('H3', [['T1', 'Mid']],
                  [St('Mid', kind='sub', sub=mid)],
                  [Row('T1', 'e3', 'Mid', act=9),
                   Row('Mid', 'e0', 'T1', act=10, guard=6),
                   Row('Mid', 'e3', 'T1', act=11),
                   Row('Mid', 'e1', None, act=12, guard=7)])
    return Program(top, ['e0', 'e1', 'e2', 'e3'])


CATALOG = {f.__name__: f for f in (F1, R2, R3, H2, H3)}

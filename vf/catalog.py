"""Catalogue of harness machines (DESIGN.md section 5).  Each function returns a Program."""
from .model import *


def F1():
    m = Machine('F1', [['A', 'B', 'C']],
                [St('B', internal=[IRow('e1', act=8, guard=7), IRow('e2', act=9)])],
                [Row('A', 'e0', 'B', act=1, guard=1),
                 Row('A', 'e0', 'C', act=2, guard=2),
                 Row('A', 'e0', 'A', act=3, guard=3),
                 Row('A', 'e1', None, act=4, guard=4),
                 Row('B', 'e1', 'C', act=5),
                 Row('B', 'e0', 'A', None, guard=5),
                 Row('C', 'e2', 'A'),
                 Row('C', 'e0', None, act=6),
                 Row('B', 'e1', 'A', act=7, guard=6)],
                internal=[IRow('e2', act=10, guard=8), IRow('e2', act=11, guard=9)])
    return Program(m, ['e0', 'e1', 'e2'])


def R2():
    """two orthogonal regions; same event handled / guarded / unhandled per region"""
    m = Machine('R2', [['A1', 'A2'], ['B1', 'B2']], [],
                [Row('A1', 'e0', 'A2', act=1, guard=1),
                 Row('A2', 'e0', 'A1', act=2),
                 Row('B1', 'e0', 'B2', act=3, guard=2),
                 Row('B2', 'e1', 'B1', act=4, guard=3),
                 Row('A1', 'e1', None, act=5, guard=4),
                 Row('B1', 'e0', None, act=6, guard=5)],
                internal=[IRow('e0', act=7, guard=6), IRow('e2', act=8)])
    return Program(m, ['e0', 'e1', 'e2'])


def R3():
    m = Machine('R3', [['A1', 'A2'], ['B1', 'B2'], ['C1', 'C2']], [],
                [Row('A1', 'e0', 'A2', act=1, guard=1),
                 Row('A2', 'e1', 'A1', act=2),
                 Row('B1', 'e0', 'B2', act=3, guard=2),
                 Row('B2', 'e1', 'B1', act=4, guard=3),
                 Row('C1', 'e0', 'C2', act=5, guard=4),
                 Row('C2', 'e0', 'C1', act=6),
                 Row('C1', 'e1', None, act=7, guard=5)])
    return Program(m, ['e0', 'e1', 'e2'])


def H2():
    """outer + submachine with two regions + outer rows on the submachine for events the inner handles"""
    sub = Machine('Sub', [['S1', 'S2'], ['T1', 'T2']], [],
                  [Row('S1', 'e0', 'S2', act=1, guard=1),
                   Row('S2', 'e0', 'S1', act=2),
                   Row('T1', 'e0', 'T2', act=3, guard=2),
                   Row('T2', 'e1', 'T1', act=4, guard=3),
                   Row('S2', 'e1', None, act=5, guard=4)],
                  internal=[IRow('e1', act=6, guard=5), IRow('e2', act=7, guard=6)])
    m = Machine('H2', [['Idle', 'Sub', 'Other']],
                [St('Sub', kind='sub', sub=sub)],
                [Row('Idle', 'e3', 'Sub', act=10),
                 Row('Sub', 'e0', 'Other', act=11, guard=7),
                 Row('Sub', 'e1', None, act=12, guard=8),
                 Row('Sub', 'e2', 'Idle', act=13, guard=9),
                 Row('Sub', 'e3', 'Sub', act=14, guard=10),
                 Row('Other', 'e3', 'Idle', act=15),
                 Row('Other', 'e0', 'Sub', act=16, guard=11)],
                internal=[IRow('e1', act=17, guard=12)])
    return Program(m, ['e0', 'e1', 'e2', 'e3'])


def H3():
    """three levels: Top > Mid (2 regions) > Low (1 region)"""
    low = Machine('Low', [['L1', 'L2']], [],
                  [Row('L1', 'e0', 'L2', act=1, guard=1),
                   Row('L2', 'e0', 'L1', act=2, guard=2),
                   Row('L2', 'e1', None, act=3, guard=3),
                   Row('L1', 'e4', 'L2', act=13, guard=8),      # e4: known only to the innermost machine
                   Row('L2', 'e4', None, act=14, guard=9)])
    mid = Machine('Mid', [['M1', 'Low'], ['N1', 'N2']],
                  [St('Low', kind='sub', sub=low)],
                  [Row('M1', 'e1', 'Low', act=4),
                   Row('Low', 'e0', 'M1', act=5, guard=4),
                   Row('Low', 'e2', 'M1', act=6),
                   Row('N1', 'e0', 'N2', act=7, guard=5),
                   Row('N2', 'e2', 'N1', act=8)])
    top = Machine('H3', [['T1', 'Mid']],
                  [St('Mid', kind='sub', sub=mid)],
                  [Row('T1', 'e3', 'Mid', act=9),
                   Row('Mid', 'e0', 'T1', act=10, guard=6),
                   Row('Mid', 'e3', 'T1', act=11),
                   Row('Mid', 'e1', None, act=12, guard=7),
                   Row('Mid', 'e4', None, act=15, guard=10)])   # outer row for the event only Low knows
    return Program(top, ['e0', 'e1', 'e2', 'e3', 'e4'])


def X():
    """direct entry, fork, entry point, exit point (modelled on test/Entries.cpp)"""
    sub = Machine('SubX', [['S1', 'S2', 'S3', 'Pe', 'Px'], ['T1', 'T2']],
                  [St('S2', kind='direct', region=0), St('T2', kind='direct', region=1),
                   St('Pe', kind='entry', region=0), St('Px', kind='exit', region=0, exit_event='e6')],
                  [Row('S1', 'e0', 'S2', act=1, guard=1),
                   Row('Pe', 'e4', 'S3', act=2),
                   Row('S3', 'e5', 'Px', act=3, guard=2),
                   Row('T1', 'e0', 'T2', act=4, guard=3),
                   Row('S2', 'e1', 'S1', act=5),
                   Row('S2', 'e5', 'S3', act=6)])
    m = Machine('X', [['A', 'SubX', 'B']],
                [St('SubX', kind='sub', sub=sub)],
                [Row('A', 'e1', 'SubX', act=10),
                 Row('A', 'e2', ('direct', 'SubX', ['S2']), act=11),
                 Row('A', 'e3', ('direct', 'SubX', ['S2', 'T2']), act=12, guard=4),
                 Row('A', 'e4', ('entry', 'SubX', 'Pe'), act=13),
                 Row(('exit', 'SubX', 'Px'), 'e6', 'B', act=14, guard=5),
                 Row('SubX', 'e7', 'A', act=15),
                 Row('B', 'e7', 'A', act=16),
                 Row('B', 'e6', None, act=17),
                 # the same explicit targets through the other row kinds (guard-only, plain)
                 Row('B', 'e2', ('direct', 'SubX', ['S2']), None, guard=7),
                 Row('B', 'e3', ('direct', 'SubX', ['S2', 'T2'])),
                 Row('B', 'e4', ('entry', 'SubX', 'Pe'), None, guard=8),
                 Row('B', 'e1', 'SubX', None, guard=9)])
    p = Program(m, ['e0', 'e1', 'e2', 'e3', 'e4', 'e5', 'e6', 'e7'])
    p.evt_extra = {'e6': 'e6(e5 const& o) : p(o.p) {}'}
    p.full_key = True      # the stale ids of the exited submachine are part of the abstract state (explicit re-entry must not depend on them)
    return p


def _HI(history, name):
    sub = Machine('SubH', [['S1', 'S2', 'S3'], ['T1', 'T2'], ['U1', 'U2']],
                  [St('S3', kind='direct', region=0), St('U2', kind='direct', region=2)],
                  [Row('S1', 'e0', 'S2', act=1),
                   Row('S2', 'e0', 'S3', act=2, guard=1),
                   Row('S3', 'e0', 'S1', act=3),
                   Row('T1', 'e3', 'T2', act=4, guard=2),
                   Row('T2', 'e3', 'T1', act=5),
                   Row('U1', 'e3', 'U2', act=6, guard=5)],
                  history=history)
    m = Machine(name, [['A', 'SubH']],
                [St('SubH', kind='sub', sub=sub)],
                [Row('A', 'e1', 'SubH', act=10),
                 Row('A', 'e2', 'SubH', act=11, guard=3),
                 Row('A', 'e4', ('direct', 'SubH', ['S3']), act=12),
                 Row('A', 'e5', ('direct', 'SubH', ['S3']), act=15),
                 Row('A', 'e6', ('direct', 'SubH', ['S3', 'U2']), act=16),   # fork naming two of the three regions
                 Row('SubH', 'e7', 'A', act=13),
                 Row('SubH', 'e1', 'SubH', act=14, guard=4)])
    p = Program(m, ['e0', 'e1', 'e2', 'e3', 'e4', 'e5', 'e6', 'e7'])
    p.full_key = True
    return p


def HIn(): return _HI('none', 'HIn')
def HIa(): return _HI('always', 'HIa')
def HIs(): return _HI(('shallow', ['e1', 'e5', 'e6']), 'HIs')


def A():
    """completion (anonymous) transitions: guards, conflict, chain"""
    m = Machine('A', [['A0', 'A1', 'A2', 'A3', 'A4']], [],
                [Row('A0', 'e0', 'A1', act=1),
                 Row('A1', None, 'A2', act=2, guard=1),
                 Row('A1', None, 'A3', act=3, guard=2),
                 Row('A2', None, 'A4', act=4),
                 Row('A3', 'e1', 'A0', act=5),
                 Row('A4', 'e1', 'A0', act=6),
                 Row('A1', 'e1', 'A0', act=7),
                 Row('A1', 'e2', None, act=8)])
    return Program(m, ['e0', 'e1', 'e2'])


def Aq():
    """A whose transition into A1 posts an event that A1 itself would handle: the completion chain out of A1 must run before
    the posted (queued) event is dispatched, which then meets the state the chain ended in"""
    m = Machine('Aq', [['A0', 'A1', 'A2', 'A3', 'A4']], [],
                [Row('A0', 'e0', 'A1', act=('send', 1, [('e1', 'p')])),
                 Row('A1', None, 'A2', act=2, guard=1),
                 Row('A1', None, 'A3', act=3, guard=2),
                 Row('A2', None, 'A4', act=4),
                 Row('A3', 'e1', 'A0', act=5),
                 Row('A4', 'e1', 'A0', act=6),
                 Row('A1', 'e1', 'A0', act=7),
                 Row('A1', 'e2', None, act=8)])
    p = Program(m, ['e0', 'e1', 'e2'])
    p.pay_exclude = [-2]     # the posted event carries P+1; -1 is what behaviours log for the completion event
    return p


def Xc():
    """entry point into a two-region submachine whose other region's initial state has a completion transition: the completion
    pass of the submachine entry runs before the inner transition out of the entry pseudo state (same event)"""
    sub = Machine('SubC', [['S1', 'S3', 'Pe'], ['T1', 'T2']],
                  [St('Pe', kind='entry', region=0)],
                  [Row('Pe', 'e4', 'S3', act=2, guard=1),
                   Row('T1', None, 'T2', act=3, guard=2),
                   Row('S3', 'e5', 'S1', act=4),
                   Row('T2', 'e5', 'T1', act=5)])
    m = Machine('Xc', [['A', 'SubC']],
                [St('SubC', kind='sub', sub=sub)],
                [Row('A', 'e1', 'SubC', act=10),
                 Row('A', 'e4', ('entry', 'SubC', 'Pe'), act=13),
                 Row('SubC', 'e7', 'A', act=15)])
    return Program(m, ['e1', 'e4', 'e5', 'e7'])


def Ai():
    """completion from the initial state at start() and inside a submachine"""
    sub = Machine('SubA', [['C0', 'C1', 'C2']], [],
                  [Row('C0', None, 'C1', act=1, guard=1),
                   Row('C1', 'e0', 'C2', act=2),
                   Row('C2', None, 'C0', act=3, guard=2)])
    m = Machine('Ai', [['I', 'B0', 'SubA']],
                [St('SubA', kind='sub', sub=sub)],
                [Row('I', None, 'B0', act=10, guard=3),
                 Row('B0', 'e1', 'SubA', act=11),
                 Row('I', 'e1', 'SubA', act=12),
                 Row('SubA', 'e2', 'B0', act=13)])
    return Program(m, ['e0', 'e1', 'e2'])


def T():
    """terminate and interrupt states in the root, two regions"""
    m = Machine('T', [['N1', 'N2', 'Term'], ['M1', 'Intr', 'M2']],
                [St('Term', kind='term', flags=['F0']), St('Intr', kind='intr', end_events=['e3'], flags=['F1'])],
                [Row('N1', 'e0', 'N2', act=1, guard=1),
                 Row('N2', 'e0', 'N1', act=2),
                 Row('N1', 'e1', 'Term', act=3, guard=2),
                 Row('M1', 'e2', 'Intr', act=4),
                 Row('Intr', 'e3', 'M2', act=5, guard=3),
                 Row('M2', 'e2', 'M1', act=6),
                 Row('N1', 'e3', None, act=7),
                 Row('M1', 'e1', 'Intr', act=8, guard=4)])      # e1 can terminate region 0 and interrupt region 1 in one step
    p = Program(m, ['e0', 'e1', 'e2', 'e3'])
    p.flags = ['F0', 'F1']
    return p


def Tq():
    """T whose terminating / interrupting transitions post an event the other region would handle: the event is pending
    at the moment the blocking state becomes active and must be swallowed like one submitted afterwards"""
    m = Machine('Tq', [['N1', 'N2', 'Term'], ['M1', 'Intr', 'M2']],
                [St('Term', kind='term', flags=['F0']), St('Intr', kind='intr', end_events=['e3'], flags=['F1'])],
                [Row('N1', 'e0', 'N2', act=1, guard=1),
                 Row('N2', 'e0', 'N1', act=2),
                 Row('N1', 'e1', 'Term', act=('send', 3, [('e2', 'p')]), guard=2),     # entering Term posts e2 (M1 would take it)
                 Row('M1', 'e2', 'Intr', act=('send', 4, [('e0', 'p')])),              # entering Intr posts e0 (N1 / N2 would take it)
                 Row('Intr', 'e3', 'M2', act=5, guard=3),
                 Row('M2', 'e2', 'M1', act=6),
                 Row('N1', 'e3', None, act=7),
                 Row('M1', 'e1', 'Intr', act=8, guard=4)])
    p = Program(m, ['e0', 'e1', 'e2', 'e3'])
    p.flags = ['F0', 'F1']
    return p


def FL():
    """user flags on simple states, on a submachine and on its substates"""
    sub = Machine('SubF', [['S1', 'S2'], ['T1', 'T2']],
                  [St('S2', flags=['F0']), St('T2', flags=['F0', 'F2'])],
                  [Row('S1', 'e0', 'S2', act=1, guard=1),
                   Row('S2', 'e0', 'S1', act=2),
                   Row('T1', 'e1', 'T2', act=3, guard=2),
                   Row('T2', 'e1', 'T1', act=4)],
                  flags=['F1'])
    m = Machine('FL', [['Idle', 'SubF', 'Other'], ['P1', 'P2']],
                [St('SubF', kind='sub', sub=sub), St('Idle', flags=['F2']), St('Other', flags=['F2', 'F0']), St('P2', flags=['F2'])],
                [Row('Idle', 'e2', 'SubF', act=10),
                 Row('SubF', 'e3', 'Other', act=11, guard=3),
                 Row('Other', 'e2', 'Idle', act=12),
                 Row('P1', 'e3', 'P2', act=13, guard=4),
                 Row('P2', 'e2', 'P1', act=14)])
    p = Program(m, ['e0', 'e1', 'e2', 'e3'])
    p.flags = ['F0', 'F1', 'F2']
    return p


def Q():
    """behaviours submit further events (process_event / enqueue_event) from guard, action, entry and exit"""
    rq3 = Row('Q3', 'e0', 'Q4', act=8, guard=3); rq3.gsend = [('e2', 'p')]
    m = Machine('Q', [['Q0', 'Q1', 'Q2', 'Q3', 'Q4']],
                [St('Q1', entry_send=[('e2', 'p')]), St('Q2', exit_send=[('e3', 'q')])],
                [Row('Q0', 'e0', 'Q1', act=('send', 1, [('e1', 'p')]), guard=1),
                 Row('Q1', 'e1', 'Q2', act=2),
                 Row('Q2', 'e2', 'Q3', act=3, guard=2),
                 Row('Q3', 'e3', 'Q4', act=('send', 4, [('e0', 'q'), ('e1', 'p')])),
                 Row('Q1', 'e2', None, act=5),
                 Row('Q2', 'e3', None, act=6),
                 Row('Q4', 'e1', None, act=7),
                 rq3,
                 Row('Q4', 'e2', None, act=9),
                 Row('Q4', 'e3', 'Q0', act=10)])
    return Program(m, ['e0', 'e1', 'e2', 'e3'])


def Q1():
    """like Q, but never more than one event pending at a time (chains of single submissions)"""
    rq3 = Row('Q3', 'e0', 'Q4', act=8, guard=3); rq3.gsend = [('e2', 'p')]
    m = Machine('Q1', [['Q0', 'Q1', 'Q2', 'Q3', 'Q4']],
                [St('Q2', exit_send=[('e3', 'q')]), St('Q1', entry_send=[('e1', 'p')])],
                [Row('Q0', 'e0', 'Q1', act=1, guard=1),
                 Row('Q1', 'e1', 'Q2', act=('send', 2, [('e2', 'q')])),
                 Row('Q2', 'e2', 'Q3', act=3, guard=2),
                 Row('Q3', 'e3', 'Q4', act=('send', 4, [('e1', 'p')])),
                 Row('Q2', 'e3', None, act=6),
                 Row('Q4', 'e1', None, act=7),
                 rq3,
                 Row('Q4', 'e2', None, act=9),
                 Row('Q4', 'e3', 'Q0', act=10)])
    return Program(m, ['e0', 'e1', 'e2', 'e3'])


def Q2():
    """one nested submission per top-level call, from action / entry / exit / guard; the nested event never submits again"""
    rg = Row('Q1', 'e0', None, act=8, guard=3); rg.gsend = [('e1', 'p')]
    m = Machine('Q2', [['Q0', 'Q1', 'Q2']],
                [St('Q2', entry_send=[('e3', 'q')], exit_send=[('e1', 'p')])],
                [Row('Q0', 'e0', 'Q1', act=('send', 1, [('e1', 'p')]), guard=1),
                 Row('Q1', 'e1', None, act=2),
                 Row('Q1', 'e2', 'Q2', act=3),
                 Row('Q2', 'e3', None, act=4),
                 Row('Q2', 'e0', 'Q0', act=5, guard=2),
                 Row('Q0', 'e1', None, act=6),
                 rg,
                 Row('Q0', 'e3', None, act=('send', 7, [('e1', 'q')]))])
    return Program(m, ['e0', 'e1', 'e2', 'e3'])


def D():
    """state-declared deferral: D0 defers e1 and e3; leaving D0 releases them in arrival order"""
    m = Machine('D', [['D0', 'D1', 'D2']],
                [St('D0', deferred=['e1', 'e3'])],
                [Row('D0', 'e0', 'D1', act=1, guard=1),
                 Row('D1', 'e1', None, act=2),
                 Row('D1', 'e3', 'D2', act=3, guard=2),
                 Row('D2', 'e1', None, act=4),
                 Row('D2', 'e0', 'D0', act=5),
                 Row('D1', 'e0', 'D0', act=6, guard=3),
                 Row('D0', 'e2', None, act=7),
                 Row('D2', 'e2', 'D1', act=8)])
    return Program(m, ['e0', 'e1', 'e2', 'e3'])


def Dr():
    """deferral with a second orthogonal region whose guarded row may reject the event that leaves the deferring state"""
    m = Machine('Dr', [['D0', 'D1'], ['R0', 'R1']],
                [St('D0', deferred=['e1'])],
                [Row('D0', 'e0', 'D1', act=1, guard=1),
                 Row('D1', 'e1', None, act=2),
                 Row('D1', 'e0', 'D0', act=3),
                 Row('R0', 'e0', 'R1', act=4, guard=2),
                 Row('R1', 'e0', 'R0', act=5, guard=3),
                 Row('R0', 'e2', None, act=6)])
    return Program(m, ['e0', 'e1', 'e2'])


def Da():
    """deferral through the Defer action with a guard (conditional deferral)"""
    m = Machine('Da', [['D0', 'D1']], [],
                [Row('D0', 'e1', None, 'defer', guard=1),
                 Row('D0', 'e0', 'D1', act=1, guard=2),
                 Row('D1', 'e1', None, act=2),
                 Row('D1', 'e0', 'D0', act=3),
                 Row('D0', 'e2', None, act=4)])
    p = Program(m, ['e0', 'e1', 'e2'])
    p.sm_extra = {'Da': 'typedef int activate_deferred_events;'}
    return p


def K():
    """exact, base-class (two inheritance levels) and Kleene triggers competing in one state"""
    m = Machine('K', [['K0', 'K1', 'K2']], [],
                [Row('K0', 'eb', 'K1', act=1, guard=1),          # base-class trigger: matches eb, ed1, ed2
                 Row('K0', 'ed1', None, act=2, guard=2),         # exact for ed1, base for ed2
                 Row('K0', '*', None, act=3, guard=3),           # Kleene: matches everything
                 Row('K0', 'ed2', 'K2', act=4, guard=4),         # exact for ed2
                 Row('K1', '*', 'K0', act=5, guard=5),
                 Row('K1', 'e0', None, act=6),
                 Row('K2', 'eb', 'K0', act=7),
                 Row('K2', 'e0', 'K1', act=8, guard=6)])
    return Program(m, ['e0', 'eb', 'ed1', 'ed2'], evt_base={'ed1': 'eb', 'ed2': 'ed1'})


def Kd():
    """a Kleene row whose action is Defer (conditional deferral of every event type): the deferred occurrence keeps its
    dynamic type and its payload until a later state consumes it"""
    m = Machine('Kd', [['K0', 'K1']], [],
                [Row('K0', '*', None, 'defer', guard=1),
                 Row('K0', 'e0', 'K1', act=1, guard=2),
                 Row('K1', 'e1', None, act=2),
                 Row('K1', 'e2', None, act=3),
                 Row('K1', 'e0', 'K0', act=4, guard=3)])
    p = Program(m, ['e0', 'e1', 'e2'])
    p.sm_extra = {'Kd': 'typedef int activate_deferred_events;'}
    return p


def G1():
    """functor front-end: And_/Or_/Not_ guard expressions (short circuit, precedence by nesting) and ActionSequence_"""
    m = Machine('G1', [['A', 'B']],
                [St('A', internal=[IRow('e2', act=('seq', [7, 8]), guard=('or', 5, ('and', 6, 1)))])],
                [Row('A', 'e0', 'B', act=('seq', [1, 2, 3]), guard=('and', 1, ('or', 2, ('not', 3)))),
                 Row('A', 'e0', None, act=4, guard=('not', ('and', 4, 1))),
                 Row('B', 'e0', 'A', act=('seq', [5]), guard=('or', ('not', 1), 2)),
                 Row('B', 'e1', None, act=6, guard=('and', ('not', 2), ('not', 3))),
                 Row('B', 'e2', 'A', None, guard=('or', 7, ('not', 8))),      # guard-only external row (Row<S,E,T,none,G>)
                 Row('A', 'e1', 'B', None, guard=9)])
    return Program(m, ['e0', 'e1', 'e2'])


def FL3():
    """three levels; a flag carried only by a state of the innermost machine (and by no direct state of the middle one)"""
    p = H3()
    low = p.machines[2]
    assert low.name == 'Low'
    low.states['L2'].flags = ['F0']
    p.machines[1].states['N2'].flags = ['F1']
    p.root.states['T1'].flags = ['F1']
    p.flags = ['F0', 'F1']
    p.name = 'FL3'
    return p


def _pol(base, pol):
    p = base()
    for m in p.machines: m.policy = pol
    p.name = '%s_%s' % (p.name, pol)
    p.root.name = p.root.name   # type names stay the same
    return p


CATALOG = {f.__name__: f for f in (Q, Q1, Q2, D, Dr, Da, K, Kd, FL3, G1, F1, R2, R3, H2, H3, X, HIn, HIa, HIs, A, Aq, Xc, Ai, T, Tq, FL)}

POLICIES = ['after_entry', 'after_transition_action', 'after_exit', 'before_transition']
for _b in (F1, R2, H2, FL):
    for _p in POLICIES:
        CATALOG['%s_%s' % (_b.__name__, _p)] = (lambda b=_b, p=_p: _pol(b, p))

"""per-property check definitions (DESIGN.md section 6)"""
import os
from . import model, emit, catalog, runner, engine
from .engine import Check, Job, log

ALL_BE = [0, 1, 2, 3, 4, 5]


def oracle_units(chk, progs, backends, tag, throws=False, proj=emit.KINDS_ALL, steps_fn=None, bfs_depth=6, max_confs=60,
                 check_result=True, check_post=True, check_flags=False, probe=None, check_introspect=False, check_queue=False, copy_modes=None, ser_states=None, opts=None, timeout=45, unwind=6, conf_filter=None, strats=None,
                 bfs_steps_fn=None, extra_leaf=None, extra_pre=None, cbmc_extra=(), prog_mod=None):
    for pname in progs:
        my_backends = backends
        if isinstance(pname, tuple): pname, my_backends = pname
        base = catalog.CATALOG[pname]() if isinstance(pname, str) else pname
        variants = {}
        for be in my_backends:
            vkey = 'nosmint' if (be == 2 and any(m.internal for m in base.machines)) else ''
            variants.setdefault(vkey, []).append(be)
        for vkey, bes in variants.items():
            prog = catalog.CATALOG[pname]() if isinstance(pname, str) else pname
            if vkey == 'nosmint':
                # back11 does not compile machines with an sm-internal table: same machine without it
                for m in prog.machines: m.internal = []
                prog.name += '_nosmint'
            if prog_mod: prog_mod(prog)
            steps = steps_fn(prog) if steps_fn else [('ev', e) for e in prog.events]
            bsteps = bfs_steps_fn(prog) if bfs_steps_fn else [('start',)] + [('ev', e) for e in prog.events]
            confs, edges = model.bfs(prog, bsteps, max_depth=bfs_depth, max_confs=max_confs, throws=throws)
            confs = [c for c in confs if (conf_filter(c[0]) if conf_filter else c[0].started)]
            cpp = emit.emit_cpp(prog, opts)
            h, index = emit.emit_harness(prog, confs, steps, tag, throws=throws, proj=proj, check_result=check_result, check_post=check_post, check_flags=check_flags, probe=probe, check_introspect=check_introspect, check_queue=check_queue, copy_modes=copy_modes, ser_states=ser_states,
                                         extra_leaf=extra_leaf, extra_pre=extra_pre)
            chk.model_edges += sum(ix['paths'] for ix in index)
            for be in bes:
                u = runner.Unit('%s_%s' % (tag, prog.name), be, cpp, h, index, exc=throws)
                u.nevents = len(prog.events)
                u.spec = {'prog': prog.name, 'tag': tag}
                chk.add_unit(u)
                for hi in range(len(index)):
                    chk.jobs.append(Job(u, hi, unwind=unwind, timeout=timeout, extra=cbmc_extra, strats=strats))
            chk.bounds.setdefault('programs', {})[prog.name] = {'configurations': len(confs), 'model_paths': sum(ix['paths'] for ix in index),
                                                                'guard_sites': len(model.guard_sites(prog)), 'events': len(prog.events)}
    chk.bounds.update({'symbolic_steps_per_query': 1, 'payload_bits': 32, 'unwind': unwind, 'queue_capacity': 4,
                       'bfs_depth': bfs_depth})


def product_units(chk, progs, pairs, tag, bfs_depth=6, max_confs=40, timeout=60, variant_fn=None, opts=None, throws=False):
    """two configurations of the same program in one query (no oracle): equal logs, results, active configurations"""
    for pname in progs:
        for (ca, cb) in pairs:
            # a configuration is (back-end, dict of program modifications)
            def mk(cfg):
                prog = catalog.CATALOG[pname]()
                if cfg[0] == 2 or (variant_fn and False):
                    pass
                return prog
            nosm = (ca[0] == 2 or cb[0] == 2) and any(m.internal for m in catalog.CATALOG[pname]().machines)
            progs2 = []
            for cfg in (ca, cb):
                prog = catalog.CATALOG[pname]()
                if nosm:
                    for m in prog.machines: m.internal = []
                if variant_fn: variant_fn(prog, cfg)
                progs2.append(prog)
            base = progs2[0]
            steps = [('ev', e) for e in base.events]
            confs, edges = model.bfs(base, [('start',)] + steps, max_depth=bfs_depth, max_confs=max_confs)
            confs = [c for c in confs if c[0].started]
            o = dict(opts or {}); o['defines'] = list(o.get('defines', [])) + ['VF_NORMALIZE_IDS 1'] + (['VF_THROW_ON 1'] if throws else [])
            parts = []
            for k, (cfg, prog) in enumerate(zip((ca, cb), progs2)):
                o2 = dict(o)
                if len(cfg) > 1 and cfg[1] in ('basic', 'functor'): o2['front'] = cfg[1]
                parts.append(('_' + 'ab'[k], emit.emit_cpp(prog, o2), ['-DVF_BE=%d' % cfg[0]] + list(cfg[2] if len(cfg) > 2 else []), 'ab'[k] + '_'))
            h, index = emit.emit_product_harness(base, confs, steps, tag, throws=throws)
            name = '%s%s_%s%s_%s_vs_%s' % (tag, 'x' if throws else '', pname, '_nosmint' if nosm else '', cfg_name(ca), cfg_name(cb))
            u = runner.Unit(name, 'P', None, h, index, parts=parts, rt_files=[runner.VERIF + '/harness/vf_product.c'], exc=throws)
            u.nevents = len(base.events)
            u.spec = {'prog': pname, 'tag': tag, 'pair': [cfg_name(ca), cfg_name(cb)]}
            chk.add_unit(u)
            for hi in range(len(index)):
                chk.jobs.append(Job(u, hi, unwind=6, timeout=timeout, extra=('--unwindset', 'vf_compare_logs.0:33,vf_compare_cfg.0:11')))
            chk.bounds.setdefault('programs', {})[name] = {'configurations': len(confs), 'events': len(base.events)}
    chk.bounds.update({'symbolic_steps_per_query': 1, 'payload_bits': 32, 'unwind': 6, 'queue_capacity': 4, 'bfs_depth': bfs_depth})


def cfg_name(cfg):
    n = {0: 'back', 1: 'back_ct', 2: 'back11', 3: 'mp11', 4: 'mp11fpa', 5: 'mp11ct'}[cfg[0]]
    if len(cfg) > 1 and cfg[1]: n += '_' + cfg[1]
    return n


def C13(tier, seed):
    chk = Check('C13', tier, seed)
    pairs = [((0, ''), (3, '')), ((3, ''), (4, '')), ((0, ''), (2, ''))]
    if tier == 'thorough':
        product_units(chk, ['F1', 'R2', 'H2', 'X', 'A', 'R3', 'H3', 'HIa', 'T'], pairs, 'C13')
    else:
        product_units(chk, ['F1', 'R2', 'H2'], pairs, 'C13')
        product_units(chk, ['X', 'A'], pairs[:1], 'C13')
    # the same behaviour position throws in both configurations: equal logs (including exception_caught) and configurations
    product_units(chk, ['F1', 'H2'] + (['R2', 'A'] if tier == 'thorough' else []), pairs[:1] + (pairs[1:] if tier == 'thorough' else []), 'C13', throws=True,
                  max_confs=(40 if tier == 'thorough' else 10))
    return chk


def C01(tier, seed):
    chk = Check('C01', tier, seed)
    flat = [0, 2, 3, 4]; hier = [0, 2, 3, 4]
    progs = [('F1', flat), ('R2', flat), ('H2', hier)]
    if tier == 'thorough': progs += [('R3', flat), ('H3', hier)]
    oracle_units(chk, progs, None, 'C01', proj=('G', 'A'), check_post=False)
    return chk


def C02(tier, seed):
    chk = Check('C02', tier, seed)
    be = [0, 2, 3] + ([4] if tier == 'thorough' else [])
    oracle_units(chk, ['F1', 'H2', 'H3'], be, 'C02', proj=('G', 'A', 'E', 'X'), check_result=False)
    oracle_units(chk, ['X'], [0, 3], 'C02', proj=('G', 'A', 'E', 'X'), check_result=False, max_confs=(60 if tier == 'thorough' else 12))
    return chk


def C06(tier, seed):
    chk = Check('C06', tier, seed)
    be = [0, 2, 3] + ([4] if tier == 'thorough' else [])
    oracle_units(chk, ['R2', 'R3', 'H2', 'F1'], be, 'C06', proj=('G', 'A', 'N'), check_post=False)
    return chk


def C07(tier, seed):
    chk = Check('C07', tier, seed)
    be = [0, 2, 3] + ([4] if tier == 'thorough' else [])
    oracle_units(chk, ['H2', 'H3'], be, 'C07')
    return chk


STD = ('G', 'A', 'E', 'X', 'N')
RT = [0, 2, 3, 4]      # run-time-speed configurations: back, back11, backmp11 flat_fold / function_pointer_array


def C08(tier, seed):
    chk = Check('C08', tier, seed)
    be = [0, 2, 3] + ([4] if tier == 'thorough' else [])
    # abstract state = active ids + last-active ids of the exited submachine (kept even without history: a no-history or
    # shallow-history re-entry must not depend on them).  quick: every configuration outside the submachine (where the
    # entering events act) plus the first few inside; thorough: all (~170 per machine)
    seen = {}
    def flt(c):
        if not c.started: return False
        if tier == 'thorough': return True
        n = seen.setdefault(id(c.prog), [0])
        if c.m[c.prog.root.name]['active'][0] == 'A': return True
        n[0] += 1
        return n[0] <= 6
    oracle_units(chk, ['HIn', 'HIa', 'HIs'], be, 'C08', proj=('A', 'E', 'X', 'G'), check_result=False,
                 bfs_depth=8, max_confs=400, conf_filter=flt)
    return chk


def C09(tier, seed):
    chk = Check('C09', tier, seed)
    be = [0, 2, 3] + ([4] if tier == 'thorough' else [])
    oracle_units(chk, ['X'], be, 'C09', proj=STD, bfs_depth=6, max_confs=(120 if tier == 'thorough' else 26))
    return chk


def C10(tier, seed):
    chk = Check('C10', tier, seed)
    be = [0, 2, 3] + ([4] if tier == 'thorough' else [])
    oracle_units(chk, ['A', 'Ai'], be, 'C10', proj=STD, bfs_depth=6)
    # completion chain before an event posted by the action that entered the source state (guard case splits first: the unsplit query gives no verdict)
    oracle_units(chk, ['Aq'], be, 'C10', proj=STD, bfs_depth=6, strats=['nkG', 'pk'])
    chk.assumptions.append('C10 machine Aq: payload P != -2 (the posted event carries P+1, and -1 is the marker behaviours log for the completion event; with P == -2 the two branches of the oracle trie are indistinguishable)')
    chk.assumptions.append('C10: completion-guard sites of states active in the pre-state are assumed false in the step (the quantifier holds them fixed until re-entry); completion-guard consultations are logged in a separate class that is not compared (back re-tries them after every handled event)')
    return chk


def C11(tier, seed):
    chk = Check('C11', tier, seed)
    be = [0, 2, 3] + ([4] if tier == 'thorough' else [])
    oracle_units(chk, ['T', 'Tq'], be, 'C11', proj=STD, check_result=False, bfs_depth=6)
    return chk


def C17(tier, seed):
    chk = Check('C17', tier, seed)
    be = [0, 2, 3] + ([4] if tier == 'thorough' else [])
    oracle_units(chk, ['FL', 'T', 'FL3'], be, 'C17', proj=('A',), check_result=False, check_flags=True, bfs_depth=6)
    # inside behaviours: every entry, exit and action queries the OR form of every flag on the root machine; the answers must
    # be those of the configuration the active-state-switch policy defines at that point
    pol = ['FL', 'FL_before_transition'] + (['FL_after_exit', 'FL_after_transition_action'] if tier == 'thorough' else [])
    oracle_units(chk, pol, [0, 3] + ([2] if tier == 'thorough' else []), 'C17', proj=('A', 'E', 'X', 'F'), check_result=False, probe='flags_or',
                 opts={'probe': 'flags_or', 'defines': ['VF_PROBE_ON 1']}, bfs_depth=6, max_confs=(60 if tier == 'thorough' else 12),
                 prog_mod=lambda prog: setattr(prog, 'name', prog.name + '_inside'))
    return chk


def ledger_invariant(prog, conf, paths):
    """C03 on the reference itself: every state is entered and exited alternately starting with entry, a substate only
    while its submachine is active; the active set after the step is exactly the set with one more entry than exits"""
    def active_set(c):
        if not c.started: return set()
        a = set(m.self_idx for m in c.active_machines())
        for m in c.active_machines():
            for n in c.m[m.name]['active']: a.add(m.states[n].idx)
        return a
    parent = {}
    for m in prog.machines:
        for st in m.states.values(): parent[st.idx] = m.self_idx
    for dec, log, res, post in paths:
        act = active_set(conf)
        for ent in log:
            if ent[0] == 'E':
                assert ent[1] not in act, ('entered twice', ent, dec)
                assert ent[1] == prog.root.self_idx or parent[ent[1]] in act, ('substate entered while parent inactive', ent)
                act.add(ent[1])
            elif ent[0] == 'X':
                assert ent[1] in act, ('exit of inactive state', ent, dec)
                act.discard(ent[1])
        assert act == active_set(post), ('ledger != configuration', act, active_set(post), dec)
    return True


def C03(tier, seed):
    chk = Check('C03', tier, seed)
    be = [0, 2, 3] + ([4] if tier == 'thorough' else [])
    def steps_fn(prog): return [('ev', e) for e in prog.events] + [('stop',), ('start',)]
    def bsteps(prog): return [('start',)] + [('ev', e) for e in prog.events] + [('stop',)]
    progs = ['F1', 'R3', 'H2', 'H3'] + (['HIa', 'R2'] if tier == 'thorough' else [])
    # stopped configurations are distinguished by the (stale) ids the machine was stopped in: restart from each of them
    def stale(prog): prog.stale_key = True
    oracle_units(chk, progs, be, 'C03', proj=('E', 'X'), check_result=False, check_introspect=True, opts={'introspect': True},
                 steps_fn=steps_fn, bfs_steps_fn=bsteps, conf_filter=lambda c: True, bfs_depth=6, max_confs=40, prog_mod=stale)
    # the ledger invariant is checked on every path of the reference for every enumerated configuration
    n = 0
    for pname in progs:
        prog = catalog.CATALOG[pname](); stale(prog)
        confs, _ = model.bfs(prog, bsteps(prog), max_depth=6, max_confs=40)
        for conf, script in confs:
            for st in steps_fn(prog):
                if (st[0] == 'start') == conf.started: continue
                paths = model.explore(prog, conf, lambda sem, st=st: model.run_step(sem, st))
                ledger_invariant(prog, conf, paths); n += len(paths)
    chk.extra_cov['reference_paths_checked_for_ledger_invariant'] = n
    return chk


def C04(tier, seed):
    chk = Check('C04', tier, seed)
    def steps_fn(prog): return [('ev', e) for e in prog.events] + [('enq', 'e1'), ('enq', 'e3'), ('execq',), ('exec1',)]
    def bsteps(prog): return [('start',)] + [('ev', e) for e in prog.events] + [('enq', 'e0', '0'), ('enq', 'e1', '0'), ('enq', 'e2', '0'), ('enq', 'e3', '0'), ('exec1',)]
    # machine Q, up to 2 pending events in the pre-state and up to 3 submissions in the step (back / back11: the
    # configurations CBMC does not decide within the budget are listed in not_decided.json and reported)
    oracle_units(chk, ['Q'], [0, 2, 3] + ([4] if tier == 'thorough' else []), 'C04', proj=STD, check_queue=True, opts={'queue_api': True},
                 steps_fn=steps_fn, bfs_steps_fn=bsteps, conf_filter=lambda c: c.started and len(c.queue) <= 2, bfs_depth=5,
                 max_confs=20, timeout=90, unwind=16, strats=['nkG', 'pk'])   # more configurations would exceed the capacity (4) of the queue stub
    # back / back11 additionally: machine Q2 (one nested submission per top-level call, <= 1 pending)
    oracle_units(chk, ['Q2'], [0, 2], 'C04', proj=STD, check_queue=True, opts={'queue_api': True},
                 steps_fn=lambda prog: [('ev', e) for e in prog.events] + [('enq', 'e1'), ('exec1',)],
                 bfs_steps_fn=lambda prog: [('start',)] + [('ev', e) for e in prog.events] + [('enq', 'e1', '0'), ('exec1',)],
                 conf_filter=lambda c: c.started and len(c.queue) <= 1, bfs_depth=5, max_confs=16, timeout=90, unwind=8, strats=['nkG', 'pk'])
    chk.bounds.update({'pending_events_in_pre_state': '0..2 (payload 0, submitted through enqueue_event from outside)',
                       'submissions_per_step': '0..3 from guard / action / entry / exit (machine Q); chains of single submissions (machine Q2)'})
    return chk


def C05(tier, seed):
    chk = Check('C05', tier, seed)
    be = [0, 2, 3] + ([4] if tier == 'thorough' else [])
    flt = lambda c: c.started and len(c.deferred) + len(c.queue) <= 2
    oracle_units(chk, ['D', 'Da', 'Dr'], be, 'C05', proj=STD, check_queue=True, opts={'queue_api': True, 'has_deferred': True},
                 conf_filter=flt, bfs_depth=5, max_confs=40, timeout=90, unwind=12, strats=['n', 'nkG', 'pk'])
    chk.bounds.update({'deferred_events_pending_in_pre_state': '0..2, distinct concrete payloads (their position in the prefix script)'})
    chk.assumptions.append('C05: guards of Defer-action rows are logged in an uncompared class and held true in the step while an event they deferred is pending (the deferring configuration persists); back releases action-deferred events after the next handled event, backmp11 after the next processed event - both satisfy the statement under this assumption')
    return chk


def C19(tier, seed):
    chk = Check('C19', tier, seed)
    be = [0, 2, 3] + ([4] if tier == 'thorough' else [])
    # (a) inside every phase of a transition the id the root machine reports for the transitioning region is the one the
    #     configured policy documents: every behaviour logs the root's current ids right after itself (guards: before)
    bases = ['F1', 'R2'] + (['H2'] if tier == 'thorough' else [])
    progs = ['%s_%s' % (b, p) for b in bases for p in catalog.POLICIES]
    oracle_units(chk, progs, be, 'C19', proj=('G', 'A', 'E', 'X', 'F'), check_result=False, probe='ids_root',
                 opts={'probe': 'ids_root', 'defines': ['VF_PROBE_ON 1']}, bfs_depth=5)
    # (a') the same with the ids of EVERY machine level (root and submachine) on the nested machine H2
    hp = ['H2_%s' % p for p in (catalog.POLICIES if tier == 'thorough' else ['after_entry', 'after_transition_action'])]
    oracle_units(chk, hp, [0, 3] + ([2] if tier == 'thorough' else []), 'C19', proj=('G', 'A', 'E', 'X', 'F'), check_result=False, probe='ids_all',
                 opts={'probe': 'ids_all', 'defines': ['VF_PROBE_ON 1']}, bfs_depth=5, max_confs=(40 if tier == 'thorough' else 10),
                 prog_mod=lambda prog: setattr(prog, 'name', prog.name + '_levels'))
    # (b) outside transitions the policies are indistinguishable: product harness, same back-end, two policies
    def variant(prog, cfg):
        for m in prog.machines: m.policy = cfg[1]
    pairs = [((0, 'after_entry'), (0, 'before_transition')), ((3, 'after_entry'), (3, 'after_exit')), ((3, 'after_transition_action'), (3, 'before_transition'))]
    if tier == 'thorough': pairs += [((0, 'after_entry'), (0, 'after_exit')), ((0, 'after_entry'), (0, 'after_transition_action')), ((2, 'after_entry'), (2, 'before_transition'))]
    product_units(chk, ['F1', 'H2'] if tier == 'quick' else ['F1', 'R2', 'H2'], pairs, 'C19', variant_fn=variant)
    # machine X (pseudo states): backmp11 pairs only - the back / back11 pairs of X give no verdict for 20 of 60 configurations within the budget
    if tier == 'thorough': product_units(chk, ['X'], [pr for pr in pairs if pr[0][0] == 3], 'C19', variant_fn=variant)
    return chk


def C18(tier, seed):
    chk = Check('C18', tier, seed)
    be = [0, 3]     # function_pointer_array cannot hold base-class / Kleene rows (quantifier); back11 does not compile a Kleene row driven with temporaries
    oracle_units(chk, ['K'], be, 'C18', proj=STD, opts={'defines': ['VF_KLEENE_ON 1']}, bfs_depth=5, timeout=120, unwind=8, strats=['nk', 'nkG', 'pk'], cbmc_extra=('--unwindset', 'strcmp.0:48'))
    # payload and dynamic type through deferral by a Kleene row (Defer action): 0..2 deferred events with distinct payloads
    oracle_units(chk, ['Kd'], [0], 'C18', proj=STD, check_queue=True,
                 opts={'defines': ['VF_KLEENE_ON 1'], 'queue_api': True, 'has_deferred': True},
                 conf_filter=lambda c: c.started and len(c.deferred) + len(c.queue) <= 2, bfs_depth=5,
                 max_confs=30, timeout=120, unwind=12, strats=['nk', 'nkG', 'pk'], cbmc_extra=('--unwindset', 'strcmp.0:48'))
    chk.assumptions.append('C18: the payload seen by Kleene behaviours is read back through any_cast on the dynamic type reported by any::type(); typeinfo name comparison uses CBMC strcmp model')
    return chk


def C15(tier, seed):
    chk = Check('C15', tier, seed)
    # prefix -> copy (0 assignment from a const reference, 1 copy construction; backmp11 also 2 move assignment, 3 move
    # construction) -> one symbolic step on the original or on the copy (symbolic choice): the driven machine behaves like the
    # reference from the copied configuration, the other machine keeps its configuration and its pending events
    if tier == 'thorough':
        cp = {0: [0, 1], 2: [0, 1], 3: [0, 1, 2, 3], 4: [0, 1, 2, 3]}; bes = [0, 2, 3]; progs = ['H2', 'HIa', 'X']; mc = 12
    else:
        cp = {0: [0, 1], 3: [0, 2]}; bes = [0, 3]; progs = ['H2']; mc = 8
    cpq = {0: [1], 3: [1]} if tier != 'thorough' else {0: [0, 1], 2: [0, 1], 3: [0, 1, 2, 3]}
    for be in bes:
        oracle_units(chk, progs, [be], 'C15', proj=STD, copy_modes=cp[be], opts={'second': True},
                     bfs_depth=6, max_confs=mc, timeout=90, strats=['nk', 'nkG'])
        # copy points with one pending queued event (machine Q2): either machine is then driven by an event or drains its queue
        if be in cpq:
            oracle_units(chk, ['Q2'], [be], 'C15', proj=STD, copy_modes=cpq[be], check_queue=True, opts={'second': True, 'queue_api': True},
                         steps_fn=lambda prog: [('ev', e) for e in prog.events] + [('execq',)],
                         bfs_steps_fn=lambda prog: [('start',)] + [('ev', e) for e in prog.events] + [('enq', 'e1', '0')],
                         conf_filter=lambda c: c.started and len(c.queue) == 1, bfs_depth=5, max_confs=16, timeout=90, unwind=8, strats=['nk', 'nkG'])
    # the history memory is part of what a copy carries: copy points with the history submachine exited (HIs: shallow, HIa: always);
    # the continuation re-enters it through history and non-history events
    nh = {}
    def hflt(c):
        if not c.started or c.m[c.prog.root.name]['active'][0] != 'A': return False
        nh[id(c.prog)] = nh.get(id(c.prog), 0) + 1
        return nh[id(c.prog)] <= (12 if tier == 'thorough' else 8)
    oracle_units(chk, ['HIs', 'HIa'] if tier == 'thorough' else ['HIs'], [0] + ([2, 3] if tier == 'thorough' else []), 'C15', proj=STD,
                 copy_modes=[0, 1], opts={'second': True}, bfs_depth=8, max_confs=400, conf_filter=hflt, timeout=90, strats=['nk', 'nkG'],
                 prog_mod=lambda prog: setattr(prog, 'name', prog.name + '_exited'))
    chk.bounds.update({'copy_operations': 'copy assignment and copy construction from a const reference (all back-ends), move assignment and move construction (backmp11)'})
    return chk


def C16(tier, seed):
    chk = Check('C16', tier, seed)
    # save the machine with a verification archive (contract of a Boost.Serialization archive: primitives in call order, classes through
    # serialize()), load into a second, never started machine object, then drive the loaded machine (and, separately, the original)
    progs = {'H2': ['S1', 'T2', 'Idle'], 'HIa': ['S2', 'T1', 'A'], 'HIs': ['S3', 'U1']}
    if tier != 'thorough': progs = {'H2': progs['H2'], 'HIa': progs['HIa']}
    for pname, ser in progs.items():
        def flt(c, n=[0], tier=tier):
            if not c.started: return False
            if tier == 'thorough': return True
            # every configuration in which the submachine is exited (its history memory matters at re-entry) + the first few others
            if c.m[c.prog.root.name]['active'][0] in ('A', 'Idle', 'Other'): return True
            n[0] += 1
            return n[0] <= 5
        oracle_units(chk, [pname], [0, 2], 'C16', proj=STD, copy_modes=[4], ser_states=ser,
                     opts={'second': True, 'serialize': True, 'ser_states': ser, 'defines': ['VF_SERIALIZE 1']},
                     bfs_depth=7, max_confs=(60 if tier == 'thorough' else 40), conf_filter=flt, timeout=90, strats=['nk', 'nkG'])
    chk.assumptions.append('C16: the archive is an environment stub (flat int buffer, call order); text/binary formats, versioning, pointer tracking and the registration machinery of the compiled Boost.Serialization library are outside the claim; boost::serialization::base_object is stubbed to return the base sub-object')
    return chk


def C12(tier, seed):
    chk = Check('C12', tier, seed)
    be = [0, 3] + ([2, 4] if tier == 'thorough' else [])
    # F1 under each of the four active-state-switch policies (the default is after_entry)
    progs = ['F1', 'H2', 'F1_after_exit', 'F1_before_transition', 'F1_after_transition_action'] + (['R2', 'A', 'H2_after_transition_action'] if tier == 'thorough' else [])
    oracle_units(chk, progs, be, 'C12', throws=True, proj=('G', 'A', 'E', 'X', 'N', 'C'), opts={'defines': ['VF_THROW_ON 1']},
                 bfs_depth=5, max_confs=(30 if tier == 'thorough' else 10), timeout=90, strats=['nk', 'nkG', 'pk'])
    # backmp11 single-step draining (process_event_pool(1)) of a machine with completion transitions: a completion event is a
    # pool entry of its own, so a throwing completion transition is dispatched by its own call; pending events stay in order
    def pooled(prog): prog.pool_completions = True; prog.name += '_pool'
    oracle_units(chk, ['A'], [3], 'C12', throws=True, proj=('G', 'A', 'E', 'X', 'N', 'C'), check_queue=True,
                 opts={'defines': ['VF_THROW_ON 1'], 'queue_api': True}, prog_mod=pooled,
                 steps_fn=lambda prog: [('exec1',), ('execq',)],
                 bfs_steps_fn=lambda prog: [('start',)] + [('enq', e, '0') for e in prog.events] + [('exec1',)],
                 conf_filter=lambda c: c.started and any(q[0] == '<c>' for q in c.queue) and len(c.queue) <= 2, bfs_depth=6, max_confs=120,
                 timeout=90, unwind=8, strats=['pkGA', 'nkGA'])
    # "the machine is not wedged": an exception aborts the entry cascade of a submachine that the switch policy leaves active
    lprogs = ['H2', 'H2_before_transition'] + (['H2_after_exit', 'H2_after_transition_action'] if tier == 'thorough' else [])
    for pname in lprogs:
        prog = catalog.CATALOG[pname]()
        confs, _ = model.bfs(prog, [('start',)] + [('ev', e) for e in prog.events], max_depth=5, max_confs=200, throws=True, keep_unspec=True)
        confs = [c for c in confs if c[0].unspec and all(any(c[0].m[pm.name]['active'][r] == st.name for pm in c[0].active_machines() for r in range(len(pm.regions)) for st in [pm.states[c[0].m[pm.name]['active'][r]]] if st.kind == 'sub' and st.sub.name == un) for un in c[0].unspec)]
        if not confs: continue
        cpp = emit.emit_cpp(prog, {'defines': ['VF_THROW_ON 1']})
        h, index = emit.emit_liveness_harness(prog, confs, 'C12', ('G', 'A', 'E', 'X', 'N', 'C'))
        for b in [b for b in be if b != 2]:      # H2 has an sm-internal table: not back11
            u = runner.Unit('C12live_%s' % prog.name, b, cpp, h, index, exc=True)
            u.nevents = len(prog.events); u.spec = {'prog': prog.name, 'tag': 'C12live'}
            chk.add_unit(u)
            for hi in range(len(index)): chk.jobs.append(Job(u, hi, unwind=6, timeout=90, strats=['nk', 'pk']))
        chk.bounds.setdefault('programs', {})['C12live_' + prog.name] = {'configurations': len(confs), 'events': len(prog.events)}
    chk.assumptions.append('C12: translation units are lowered with exceptions enabled; throw / unwind / landing pads are modelled by ll2c (pending-exception flag checked after every call that may unwind; catch clauses matched through the typeinfo base-class chain); only exceptions derived from std::exception thrown by behaviours are exercised, one fault per step, faulting steps are part of the enumerated prefixes (repeated faults)')
    return chk


def C14(tier, seed):
    chk = Check('C14', tier, seed)
    # (1) the same machines written with functor rows (Row / Internal) and with basic rows (row, a_row, g_row, _row, irow family):
    #     product harness, same back-end
    pairs = [((0, 'functor'), (0, 'basic')), ((3, 'functor'), (3, 'basic'))] + ([((2, 'functor'), (2, 'basic'))] if tier == 'thorough' else [])
    product_units(chk, ['F1', 'R2', 'H2'] if tier == 'thorough' else ['F1', 'H2'], pairs, 'C14')
    # (2) guard expressions And_ / Or_ / Not_ (nesting = parentheses, C++ short circuit) and ActionSequence_ against the reference
    #     every guard and action functor additionally reports which source / target state objects it was called with
    oracle_units(chk, ['G1'], [0, 2, 3], 'C14', proj=STD + ('S',), bfs_depth=4, opts={'defines': ['VF_SRCTGT_ON 1']},
                 prog_mod=lambda prog: setattr(prog, 'log_srctgt', True))
    chk.assumptions.append('C14: the eUML and PlantUML front-ends and the PlantUML tokenizer are NOT covered (DESIGN 9: no verdict for the tokenizer kernel within 900 s / 14 GB even for a four-character line)')
    return chk


BP_TYPES = {0: 'Triv<1> (5 bytes)', 1: 'Triv<44>', 2: 'Triv<52> (56 bytes: fills the inline buffer)', 3: 'Triv<53> (60 bytes: heap)',
            4: 'TrivA<8,16> (alignment 16: heap)', 5: 'TrivA<40,64> (alignment 64: heap)', 6: 'Triv<196> (200 bytes: heap)',
            7: 'NonTriv inline (user copy/move/dtor, self pointer)', 8: 'NonTriv 100 bytes (heap)', 9: 'ThrowMove (move not noexcept: heap)'}
BP_PRE = ['EEE', 'LEE', 'LLE', 'LLL', 'MLE', 'MLL', 'LML']


def C20(tier, seed):
    chk = Check('C20', tier, seed)
    if tier == 'thorough':
        pairs = [(a, b) for a in range(10) for b in range(10) if a <= b or (a in (7, 8, 9))]
        pres = range(7)
    else:
        pairs = [(7, 3), (3, 7), (0, 8), (8, 2), (9, 7), (2, 9), (6, 7), (7, 7), (4, 0), (5, 8)]
        pres = [1, 2, 3, 4, 5, 6]
    variants = []; labels = []
    for (a, b) in pairs:
        for pre in pres:
            variants.append(['-DPRE=%d' % pre, '-DT0=%d' % a, '-DT1=%d' % b])
            labels.append('slots %s; slot0 type %s; slots1,2 type %s' % (BP_PRE[pre], BP_TYPES[a], BP_TYPES[b]))
    u = runner.KernelUnit('C20_basic_polymorphic', runner.VERIF + '/kernels/bp.cpp', runner.VERIF + '/kernels/bp_harness.c', 'harness_bp',
                          variants, labels, unwind=12, extra_cbmc=['--memory-leak-check'])
    chk.add_unit(u)
    for h in range(len(variants)): chk.jobs.append(Job(u, h, unwind=12, timeout=300))
    # machine level: the event objects the library stores (message queue, deferred queue, event pool) are alive exactly as long as
    # they are pending.  Event types report every construction / destruction (vf_life); e3 is larger than backmp11's inline buffer.
    counted = {'e0': 0, 'e1': 0, 'e2': 0, 'e3': 60}
    def live_leaf(conf, st, dec, log, res, post):
        return ['VF_CHECK(vf_live == VFN(vf_qsize)(), "C20:event objects alive != events pending in the machine");'] + \
               (['VF_CHECK(vf_live == 0, "C20:event objects alive after the machine was destroyed");'] if st[0] == 'destroy' else [])
    def live_pre(conf): return ['VF_CHECK(vf_live == %d && vf_live == VFN(vf_qsize)(), "C20:prefix:event objects alive != events pending");' % (len(conf.queue) + len(conf.deferred))]
    oracle_units(chk, ['D'], [0, 3] + ([2] if tier == 'thorough' else []), 'C20', proj=STD, check_result=False, check_post=False,
                 opts={'queue_api': True, 'has_deferred': True, 'counted_events': counted},
                 steps_fn=lambda prog: [('ev', e) for e in prog.events] + [('enq', 'e1'), ('enq', 'e3'), ('execq',), ('destroy',)],
                 bfs_steps_fn=lambda prog: [('start',)] + [('ev', e) for e in prog.events] + [('enq', 'e1', '0'), ('enq', 'e3', '0')],
                 conf_filter=lambda c: c.started and len(c.deferred) + len(c.queue) <= 2 and not (c.deferred and c.queue), bfs_depth=5, max_confs=(36 if tier == 'thorough' else 24),
                 extra_leaf=live_leaf, extra_pre=live_pre, timeout=120, unwind=12, strats=['nk', 'nkG', 'pk'])
    chk.bounds.update({'kernel': 'basic_polymorphic<B,56,8>: make / copy-construct / move-construct / copy-assign / move-assign (incl. self) / destroy',
                       'pre_states': [BP_PRE[p] for p in pres], 'type_pairs': len(pairs), 'symbolic': 'operation, both slot indices, which of the two types is made, 32-bit value; values of the pre-state objects',
                       'unwind': 12})
    chk.assumptions += ['C20 kernel: only the run-time selection paths of basic_polymorphic are exercised (10 payload types: sizes 5..200 bytes, alignment 4..64, trivially copyable / user copy+move+dtor / non-noexcept move)',
                        'copying or moving FROM a moved-from or empty value is outside the harness (not an operation the event pool performs)',
                        'cbmc --memory-leak-check plus the built-in pointer/deallocation checks stand for "no freed / out-of-bounds memory read"; alignment of the heap block is not decided (no addresses in CBMC)']
    return chk


PROPS = {f.__name__: f for f in (C01, C02, C03, C04, C05, C12, C14, C15, C16, C18, C19, C06, C07, C08, C09, C10, C11, C13, C17, C20)}

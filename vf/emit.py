"""C++ harness-TU emitter and C harness (oracle trie) emitter."""
from .model import *


# ------------------------------------------------------------------ C++ TU
def cpp_state_ref(m, name):
    """type expression for a state of machine m as used inside m's own definition"""
    st = m.states[name]
    return name


def row_src(m, row):
    if isinstance(row.src, tuple) and row.src[0] == 'exit':
        sub = m.states[row.src[1]].sub
        return '%s::exit_pt<%s_::%s>' % (row.src[1], sub.name, row.src[2])
    return row.src


def row_tgt(m, row):
    t = row.tgt
    if t is None: return 'none'
    if isinstance(t, tuple):
        sub = m.states[t[1]].sub
        if t[0] == 'direct':
            parts = ['%s::direct<%s_::%s>' % (t[1], sub.name, n) for n in t[2]]
            return parts[0] if len(parts) == 1 else 'mpl::vector<%s >' % ', '.join(parts)
        if t[0] == 'entry':
            return '%s::entry_pt<%s_::%s>' % (t[1], sub.name, t[2])
    return t


def act_expr(a):
    if a is None: return 'none'
    if a == 'defer': return 'Defer'
    if isinstance(a, int): return 'Act<%d>' % a
    if isinstance(a, tuple) and a[0] == 'seq':
        return 'msm::front::ActionSequence_<mpl::vector<%s > >' % ', '.join('Act<%d>' % x for x in a[1])
    if isinstance(a, tuple) and a[0] == 'send':
        md = {'p': 0, 'q': 1}
        if len(a[2]) == 1: return 'ActSend<%d, %s, %d>' % (a[1], a[2][0][0], md[a[2][0][1]])
        if len(a[2]) == 2: return 'ActSend2<%d, %s, %d, %s, %d>' % (a[1], a[2][0][0], md[a[2][0][1]], a[2][1][0], md[a[2][1][1]])
    if isinstance(a, tuple) and a[0] == 'cpp': return a[1]
    raise ValueError(a)


def guard_expr(g, completion=False):
    if g is None: return 'none'
    if isinstance(g, int): return ('Gc<%d>' if completion else 'Gd<%d>') % g
    if isinstance(g, tuple) and g[0] in ('and', 'or', 'not'):
        ft = {'and': 'msm::front::And_', 'or': 'msm::front::Or_', 'not': 'msm::front::Not_'}[g[0]]
        return '%s<%s >' % (ft, ', '.join(guard_expr(x) for x in g[1:]))
    if isinstance(g, tuple) and g[0] == 'cpp': return g[1]
    raise ValueError(g)


def evt_expr(prog, e):
    if e is None: return 'none'
    if e == '*': return 'VF_KLEENE'
    return e


def emit_machine(prog, m, out, is_root, opts):
    # inner machines first
    for st in m.states.values():
        if st.kind == 'sub': emit_machine(prog, st.sub, out, False, opts)
    fe = m.name + '_'
    out.append('struct %s : msm::front::state_machine_def<%s> {' % (fe, fe))
    out.append('  VF_SM_BODY(%d, %d)' % (m.self_idx, m.idx))
    if m.policy: out.append('  typedef msm::active_state_switch_%s active_state_switch_policy;' % m.policy)
    if m.flags: out.append('  typedef mpl::vector<%s > flag_list;' % ', '.join(m.flags))
    if m.deferred: out.append('  typedef mpl::vector<%s > deferred_events;' % ', '.join(m.deferred))
    if m.history != 'none':
        h = 'VF_HIST_ALWAYS' if m.history == 'always' else 'VF_HIST_SHALLOW(%s)' % ', '.join(m.history[1])
        out.append('  VF_FRONT_HISTORY(%s)' % h)
    sx = (getattr(prog, 'sm_extra', None) or opts.get('sm_extra', {})).get(m.name)
    if sx: out.append('  ' + sx)
    for st in m.states.values():
        if st.kind == 'sub': continue
        base = {'simple': 'msm::front::state<>',
                'term': 'msm::front::terminate_state<>',
                'intr': 'msm::front::interrupt_state<%s >' % (st.end_events[0] if len(st.end_events) == 1 else 'mpl::vector<%s >' % ', '.join(st.end_events)),
                'direct': 'msm::front::state<>, msm::front::explicit_entry<%s>' % st.region,
                'entry': 'msm::front::entry_pseudo_state<%s>' % st.region,
                'exit': 'msm::front::exit_pseudo_state<%s >' % st.exit_event,
                }[st.kind]
        body = ['VF_STATE_BODY(%d)' % st.idx]
        if opts.get('serialize') and st.kind == 'simple':
            body = ['VF_SER_STATE(%d)' % st.idx]
            if st.name in opts.get('ser_states', ()): body.append('VF_SER_DO')
        if st.entry_send or st.exit_send:
            md = {'p': 0, 'q': 1}
            en = ' '.join('vf_send<%s, %d>(e, f);' % (ev2, md[mode]) for ev2, mode in st.entry_send)
            ex = ' '.join('vf_send<%s, %d>(e, f);' % (ev2, md[mode]) for ev2, mode in st.exit_send)
            body = ['enum { vf_state_index = %d };' % st.idx, 'template <class E, class F> void on_entry(E const& e, F& f) { vf_log(VF_ENTRY(%d), vf_pay(e)); %s }' % (st.idx, en),
                    'template <class E, class F> void on_exit(E const& e, F& f) { vf_log(VF_EXIT(%d), vf_pay(e)); %s }' % (st.idx, ex)]
        if st.flags: body.append('typedef mpl::vector<%s > flag_list;' % ', '.join(st.flags))
        if st.deferred: body.append('typedef mpl::vector<%s > deferred_events;' % ', '.join(st.deferred))
        if st.internal:
            rows = ['Internal<%s, %s, %s >' % (evt_expr(prog, r.evt), act_expr(r.act), guard_expr(r.guard)) for r in st.internal]
            body.append('struct internal_transition_table : mpl::vector<%s > {};' % ', '.join(rows))
        extra = opts.get('state_extra', {}).get(st.name)
        if extra: body.append(extra)
        out.append('  struct %s : %s { %s };' % (st.name, base, ' '.join(body)))
    inits = [reg[0] for reg in m.regions]
    out.append('  typedef %s initial_state;' % (inits[0] if len(inits) == 1 else 'mpl::vector<%s >' % ', '.join(inits)))
    expl = [st.name for st in m.states.values() if st.kind in ('direct', 'entry', 'exit') and not any(
        (r.src == st.name or r.tgt == st.name) for r in m.rows)]
    if expl: out.append('  typedef mpl::vector<%s > explicit_creation;' % ', '.join(expl))
    rows = []
    basic = opts.get('front') == 'basic'
    if basic:
        # the same table written with the basic (member-function pointer) front-end: row / a_row / g_row / _row and the irow family
        done = set()
        for r in m.rows:
            if isinstance(r.act, int) and ('a', r.act, r.evt) not in done:
                done.add(('a', r.act, r.evt))
                out.append('  void a%d_%s(%s const& e) { vf_log(VF_ACT(%d), vf_pay(e)); }' % (r.act, r.evt, r.evt, r.act))
            if isinstance(r.guard, int) and ('g', r.guard, r.evt) not in done:
                done.add(('g', r.guard, r.evt))
                out.append('  bool g%d_%s(%s const&) { return vf_guard(%d) != 0; }' % (r.guard, r.evt, r.evt, r.guard))
    for r in m.rows:
        if basic and r.evt is not None and (r.act is None or isinstance(r.act, int)) and (r.guard is None or isinstance(r.guard, int)) \
                and (r.tgt is None or isinstance(r.tgt, str)) and isinstance(r.src, str):
            a = '&%s::a%d_%s' % (fe, r.act, r.evt) if r.act is not None else None
            g = '&%s::g%d_%s' % (fe, r.guard, r.evt) if r.guard is not None else None
            if r.tgt is None:
                kind = 'irow' if (a and g) else 'a_irow' if a else 'g_irow' if g else '_irow'
                args = [r.src, r.evt] + [x for x in (a, g) if x]
            else:
                kind = 'row' if (a and g) else 'a_row' if a else 'g_row' if g else '_row'
                args = [r.src, r.evt, r.tgt] + [x for x in (a, g) if x]
            rows.append('%s<%s >' % (kind, ', '.join(args)))
            continue
        ge = guard_expr(r.guard, r.evt is None or r.act == 'defer')
        if getattr(r, 'gsend', None):
            ge = 'GdSend<%d, %s, %d>' % (r.guard, r.gsend[0][0], {'p': 0, 'q': 1}[r.gsend[0][1]])
        rows.append('Row<%s, %s, %s, %s, %s >' % (row_src(m, r), evt_expr(prog, r.evt), row_tgt(m, r), act_expr(r.act), ge))
    out.append('  struct transition_table : mpl::vector<\n    %s\n  > {};' % ',\n    '.join(rows))
    if m.internal:
        rows = ['Internal<%s, %s, %s >' % (evt_expr(prog, r.evt), act_expr(r.act), guard_expr(r.guard)) for r in m.internal]
        out.append('  struct internal_transition_table : mpl::vector<%s > {};' % ', '.join(rows))
    out.append('};')
    hist = None
    if m.history != 'none':
        hist = 'VF_HIST_ALWAYS' if m.history == 'always' else 'VF_HIST_SHALLOW(%s)' % ', '.join(m.history[1])
    if is_root:
        out.append(('VF_ROOT_H(%s, %s)' % (fe, hist)) if hist else ('VF_ROOT(%s)' % fe))
    else:
        out.append('typedef %s %s;' % (('VF_SM_H(%s, %s)' % (fe, hist)) if hist else ('VF_SM(%s)' % fe), m.name))


def machine_obj(prog, m, root='g_sm'):
    """C++ expression for the machine instance of m inside the root object"""
    e = root
    for n in prog.paths[m.name]:
        e = '%s.get_state<%s&>()' % (e, n)
    return e


def machine_type(prog, m):
    return 'M' if m is prog.root else m.name


def emit_cpp(prog, opts=None):
    opts = opts or {}
    out = ['// generated by vf/emit.py for program %s -- do not edit' % prog.name]
    for d in opts.get('defines', []): out.append('#define ' + d)
    out.append('#include "vf_backend.hpp"')
    out.append(opts.get('prelude', ''))
    out.append('namespace {')
    for e in prog.events:
        b = prog.evt_base.get(e)
        if b: out.append('struct %s : %s { %s(int v = 0) : %s(v) {} };' % (e, b, e, b))
        elif opts.get('counted_events'):
            # C20: every construction / destruction of an event object is reported to the harness (vf_life); one event type is
            # larger than the inline buffer of the backmp11 event storage (heap fallback)
            pad = 'char pad[%d];' % opts['counted_events'][e] if opts['counted_events'].get(e) else ''
            out.append('struct %s { int p; %s %s(int v = 0) : p(v) { vf_life(1); } %s(%s const& o) : p(o.p) { vf_life(1); } %s& operator=(%s const& o) { p = o.p; return *this; } ~%s() { vf_life(-1); } };' % (e, pad, e, e, e, e, e, e))
        else: out.append('struct %s { int p; %s(int v = 0) : p(v) {} %s };' % (e, e, (getattr(prog, 'evt_extra', None) or opts.get('evt_extra', {})).get(e, '')))
    for f in prog.flags: out.append('struct %s {};' % f)
    out.append('}')
    out.append('#if VF_BE == 5 || defined(VF_KLEENE_ON)')
    for anyt, fn in (('std::any', 'vf_pay_stdany'), ('boost::any', 'vf_pay_boostany')):
        ns = anyt.split('::')[0]
        out.append('int %s(%s const& a) {' % (fn, anyt))
        for e in prog.events:
            out.append('  if (a.type() == typeid(%s)) return %s::any_cast<%s>(&a)->p;' % (e, ns, e))
        out.append('  return -3;\n}')
    out.append('#endif')
    out.append('namespace {')
    emit_machine(prog, prog.root, out, True, opts)
    out.append('}')
    out.append('#if VF_BE == 1')
    for m in prog.machines[1:]: out.append('BOOST_MSM_BACK_GENERATE_PROCESS_EVENT(%s)' % m.name)
    out.append('#endif')
    out.append('namespace {')
    out.append('static M g_sm%s;' % opts.get('ctor_args', ''))
    if opts.get('second'): out.append('static M g_sm2;')
    out.append('}')
    out.append('extern "C" {')
    out.append('__attribute__((noinline)) void vf_start(void) { g_sm.start(); }')
    out.append('__attribute__((noinline)) void vf_stop(void) { g_sm.stop(); }')
    out.append('__attribute__((noinline)) int vf_ev(int kind, int p) {\n  switch (kind) {')
    for k, e in enumerate(prog.events):
        out.append('    case %d: return (int)g_sm.process_event(%s(p));' % (k, e))
    out.append('    default: return -1;\n  }\n}')
    if opts.get('queue_api'):
        out.append('__attribute__((noinline)) void vf_enq(int kind, int p) {\n  switch (kind) {')
        for k, e in enumerate(prog.events):
            out.append('    case %d: g_sm.enqueue_event(%s(p)); break;' % (k, e))
        out.append('    default: break;\n  }\n}')
        out.append('#if VF_IS_MP11')
        out.append('__attribute__((noinline)) void vf_execq(void) { g_sm.process_event_pool(); }')
        out.append('__attribute__((noinline)) void vf_exec1(void) { g_sm.process_event_pool(1); }')
        out.append('__attribute__((noinline)) int vf_qsize(void) { return (int)g_sm.vf_pool_size(); }')
        out.append('#else')
        out.append('__attribute__((noinline)) void vf_execq(void) { g_sm.execute_queued_events(); }')
        out.append('__attribute__((noinline)) void vf_exec1(void) { g_sm.execute_single_queued_event(); }')
        if opts.get('has_deferred'):
            out.append('__attribute__((noinline)) int vf_qsize(void) { return (int)g_sm.get_message_queue_size() + (int)g_sm.get_deferred_queue().size(); }')
        else:
            out.append('__attribute__((noinline)) int vf_qsize(void) { return (int)g_sm.get_message_queue_size(); }')
        out.append('#endif')
    out.append('__attribute__((noinline)) int vf_id(int mi, int r) {\n  switch (mi) {')
    for m in prog.machines:
        out.append('    case %d: return (int)VF_IDS(%s)[r];' % (m.idx, machine_obj(prog, m)))
    out.append('    default: return -1;\n  }\n}')
    out.append('__attribute__((noinline)) int vf_sid(int si) {\n  switch (si) {')
    for m in prog.machines:
        for st in m.states.values():
            tn = st.name if st.kind == 'sub' else '%s_::%s' % (m.name, st.name)
            if st.kind == 'exit': tn = '%s::exit_pt<%s >' % (machine_type(prog, m), tn)
            out.append('    case %d: return VF_SID(%s, %s);' % (st.idx, machine_type(prog, m), tn))
    out.append('    default: return -1;\n  }\n}')
    if opts.get('probe') == 'ids_root':
        out.append('void vf_probe(void) {')
        for r in range(len(prog.root.regions)):
            out.append('  vf_log(%d, vf_sidx(0, (int)VF_IDS(g_sm)[%d]));' % (6000 + 100 + r, r))
        out.append('}')
    if opts.get('counted_events'):
        out.append('__attribute__((noinline)) void vf_destroy(void) { g_sm.~M(); new (&g_sm) M(); }   // C20: destroy the machine with whatever is pending')
    if opts.get('probe') == 'ids_all':
        out.append('void vf_probe(void) {   // C19: the ids every machine level reports, queried inside the behaviour')
        for m in prog.machines:
            for r in range(len(m.regions)):
                out.append('  vf_log(%d, vf_sidx(%d, (int)VF_IDS(%s)[%d]));' % (6000 + 100 + 8 * m.idx + r, m.idx, machine_obj(prog, m), r))
        out.append('}')
    if opts.get('probe') == 'flags_or':
        out.append('int vf_flags(void);')
        out.append('void vf_probe(void) { vf_log(6000, vf_flags() & 0xff); }   // C17: OR answers of every flag, queried inside the behaviour')
    if opts.get('introspect'):
        out.append('__attribute__((noinline)) int vf_introspect(void) {\n  int m = 0;')
        out.append('#if VF_IS_MP11')
        for m_ in prog.machines:
            for st in m_.states.values():
                tn = st.name if st.kind == 'sub' else '%s_::%s' % (m_.name, st.name)
                out.append('  if (g_sm.is_state_active<%s >()) m |= %d;' % (tn, 1 << st.idx))
        out.append('#else')
        for m_ in prog.machines:
            for st in m_.states.values():
                tn = st.name if st.kind == 'sub' else '%s_::%s' % (m_.name, st.name)
                mt = machine_type(prog, m_)
                out.append('  { %s& o = %s; if ((const void*)o.get_state_by_id(VF_SID(%s, %s)) == (const void*)static_cast<const %s::BaseState*>(&o.get_state<%s&>())) m |= %d; }'
                           % (mt, machine_obj(prog, m_), mt, tn, mt, tn, 1 << st.idx))
        out.append('#endif')
        out.append('  return m;\n}')
        # active-state visitor (backmp11: visit<visit_mode::active_recursive>): bit mask of the states the visitor is called with
        out.append('#if VF_IS_MP11')
        out.append('}   // extern "C"')
        out.append('template <class T> static inline int vf_bit(T const&) { return 0; }')
        for m_ in prog.machines:
            for st in m_.states.values():
                if st.kind == 'exit': continue
                tn = st.name if st.kind == 'sub' else '%s_::%s' % (m_.name, st.name)
                out.append('static inline int vf_bit(%s const&) { return %d; }' % (tn, 1 << st.idx))
        out.append('extern "C" {')
        out.append('__attribute__((noinline)) int vf_visit(void) { int m = 0; g_sm.visit<boost::msm::backmp11::visit_mode::active_recursive>([&m](auto& s) { m |= vf_bit(s); }); return m; }')
        out.append('#else')
        out.append('__attribute__((noinline)) int vf_visit(void) { return -1; }')
        out.append('#endif')
    if prog.flags:
        out.append('__attribute__((noinline)) int vf_flags(void) {\n  int m = 0;')
        for k, f in enumerate(prog.flags):
            out.append('  if (g_sm.is_flag_active<%s>()) m |= %d;' % (f, 1 << k))
            out.append('  if (VF_FLAG_AND(g_sm, %s)) m |= %d;' % (f, 1 << (8 + k)))
        out.append('  return m;\n}')
    if opts.get('second'):
        out.append('// C15: a second machine object that is copy-constructed / assigned / moved from the first')
        out.append('__attribute__((noinline)) void vf_copy(int mode) {')
        out.append('  if (mode == 0) { g_sm2 = static_cast<M const&>(g_sm); }')
        out.append('  else if (mode == 1) { g_sm2.~M(); new (&g_sm2) M(static_cast<M const&>(g_sm)); }')
        if opts.get('serialize'):
            out.append('  else if (mode == 4) { static int buf[256]; vf_archive sa(buf, true); sa & g_sm; vf_archive la(buf, false); la & g_sm2; }')
        out.append('#if VF_IS_MP11')
        out.append('  else if (mode == 2) { g_sm2 = std::move(g_sm); }')
        out.append('  else { g_sm2.~M(); new (&g_sm2) M(std::move(g_sm)); }')
        out.append('#endif')
        out.append('}')
        out.append('__attribute__((noinline)) int vf_ev2(int kind, int p) {\n  switch (kind) {')
        for k, e in enumerate(prog.events):
            out.append('    case %d: return (int)g_sm2.process_event(%s(p));' % (k, e))
        out.append('    default: return -1;\n  }\n}')
        out.append('__attribute__((noinline)) int vf_id2(int mi, int r) {\n  switch (mi) {')
        for m in prog.machines:
            out.append('    case %d: return (int)VF_IDS(%s)[r];' % (m.idx, machine_obj(prog, m, 'g_sm2')))
        out.append('    default: return -1;\n  }\n}')
        if opts.get('queue_api'):
            out.append('#if VF_IS_MP11')
            out.append('__attribute__((noinline)) void vf_execq2(void) { g_sm2.process_event_pool(); }')
            out.append('__attribute__((noinline)) int vf_qsize2(void) { return (int)g_sm2.vf_pool_size(); }')
            out.append('#else')
            out.append('__attribute__((noinline)) void vf_execq2(void) { g_sm2.execute_queued_events(); }')
            if opts.get('has_deferred'):
                out.append('__attribute__((noinline)) int vf_qsize2(void) { return (int)g_sm2.get_message_queue_size() + (int)g_sm2.get_deferred_queue().size(); }')
            else:
                out.append('__attribute__((noinline)) int vf_qsize2(void) { return (int)g_sm2.get_message_queue_size(); }')
            out.append('#endif')
        if opts.get('serialize'):
            out.append('__attribute__((noinline)) int vf_cnt(int which, int si) {\n  switch (si) {')
            for m in prog.machines:
                for st in m.states.values():
                    if st.kind != 'simple': continue
                    out.append('    case %d: return which ? %s.get_state<%s_::%s&>().cnt : %s.get_state<%s_::%s&>().cnt;' % (
                        st.idx, machine_obj(prog, m, 'g_sm2'), m.name, st.name, machine_obj(prog, m, 'g_sm'), m.name, st.name))
            out.append('    default: return -1;\n  }\n}')
        out.append('// machine 1 is reset to a fresh object and restarted after having been moved from (must be destructible / assignable)')
        out.append('__attribute__((noinline)) void vf_reuse_moved_from(void) { g_sm = M(); g_sm.start(); }')
    out.append('__attribute__((noinline)) int vf_is_mp11(void) { return VF_IS_MP11; }')
    # (machine index, back-end state id) -> catalogue state index
    out.append('int vf_sidx(int mi, int id) {\n  switch (mi) {')
    for m in prog.machines:
        out.append('    case %d:' % m.idx)
        for st in m.states.values():
            tn = st.name if st.kind == 'sub' else '%s_::%s' % (m.name, st.name)
            if st.kind == 'exit': tn = '%s::exit_pt<%s >' % (machine_type(prog, m), tn)
            out.append('      if (id == VF_SID(%s, %s)) return %d;' % (machine_type(prog, m), tn, st.idx))
        out.append('      return -1;')
    out.append('    default: return -1;\n  }\n}')
    # flattened active configuration (DFS from the root through active submachines): slot -> catalogue state index
    out.append('__attribute__((noinline)) int vf_cfg(int slot) {\n  int n = 0;')
    def cfg_rec(m, ind):
        pad = '  ' * ind
        for r in range(len(m.regions)):
            out.append('%s{ int si = vf_sidx(%d, (int)VF_IDS(%s)[%d]); if (slot == n) return si; n++;' % (pad, m.idx, machine_obj(prog, m), r))
            for st in m.states.values():
                if st.kind == 'sub':
                    out.append('%s  if (si == %d) {' % (pad, st.idx))
                    cfg_rec(st.sub, ind + 2)
                    out.append('%s  }' % pad)
            out.append('%s}' % pad)
    cfg_rec(prog.root, 1)
    out.append('  return -2;\n}')
    out.append(opts.get('extern_c', ''))
    out.append('}')
    return '\n'.join(out) + '\n'


# ------------------------------------------------------------------ harness (C)
KINDS_ALL = ('G', 'A', 'E', 'X', 'N', 'C', 'F', 'Q')


def entry_c(prog, ent):
    """log entry of the model -> (code C expr, arg C expr or None = not compared)"""
    code, arg = entry_c_(prog, ent)
    if arg == ANY: arg = None
    return code, arg


def entry_c_(prog, ent):
    k = ent[0]
    if k == 'G': return ('%d' % (3000 + 2 * ent[1] + ent[2]), None)
    if k == 'E': return ('%d' % (100 + 4 * ent[1]), ent[2])
    if k == 'X': return ('%d' % (101 + 4 * ent[1]), ent[2])
    if k == 'A': return ('%d' % (2000 + ent[1]), ent[2])
    if k == 'N':
        m = prog.machines[ent[1]]
        return ('(%d + VFN(vf_sid)(%d))' % (4000 + 64 * ent[1], m.states[ent[2]].idx), ent[3])
    if k == 'C': return ('%d' % (5000 + ent[1]), ent[2])
    if k == 'S': return ('8000', ANY if (ent[1] is None or ent[2] is None) else str(ent[1] * 256 + ent[2]))
    if k == 'F': return ('%d' % (6000 + ent[1]), str(ent[2]))     # probe: code 6000+probe id, arg value
    if k == 'Q': return ('%d' % (7000 + 2 * ent[1] + ent[2]), None)
    raise ValueError(ent)


def flag_checks(prog, conf, tag):
    """C17: flags are a pure function of the active configuration"""
    if not prog.flags or not conf.started: return []
    sem = Sem(prog, conf, Ctx(prog, {}))
    om = sum(1 << k for k, f in enumerate(prog.flags) if sem.flag_or(f))
    am = sum(1 << k for k, f in enumerate(prog.flags) if sem.flag_and(f))
    root = prog.root
    simple = all(root.states[n].kind != 'sub' for n in conf.m[root.name]['active'])
    out = ['VF_CHECK((VFN(vf_flags)() & 0xff) == %d, "%s:flag OR answers");' % (om, tag)]
    if simple: out.append('VF_CHECK(((VFN(vf_flags)() >> 8) & 0xff) == %d, "%s:flag AND answers");' % (am, tag))
    return out


def introspect_checks(prog, conf, tag):
    """C03: is_state_active<S> for every S (backmp11) / get_state_by_id(id) identity for every id (back, back11)"""
    if not conf.started: return []
    act = 0; allm = 0
    for m in prog.machines:
        for st in m.states.values(): allm |= 1 << st.idx
    for m in conf.active_machines():
        for name in conf.m[m.name]['active']: act |= 1 << m.states[name].idx
    vis = act
    for m in prog.machines:
        for st in m.states.values():
            if st.kind == 'exit': vis &= ~(1 << st.idx)
    return ['VF_CHECK(VFN(vf_introspect)() == (VFN(vf_is_mp11)() ? %d : %d), "%s:introspection (is_state_active / get_state_by_id)");' % (act, allm, tag),
            'VF_CHECK(!VFN(vf_is_mp11)() || VFN(vf_visit)() == %d, "%s:active-state visitor (visit<active_recursive>)");' % (vis, tag)]


def numbering_checks(prog, tag):
    """documented numbering: sources top-down, then targets top-down, then remaining (initial) states; only asserted for
    machines without submachines and pseudo-states, where the rule is unambiguous"""
    out = []
    for m in prog.machines:
        if any(st.kind != 'simple' for st in m.states.values()): continue
        order = []
        for r in m.rows:
            if isinstance(r.src, str) and r.src not in order: order.append(r.src)
        for r in m.rows:
            if isinstance(r.tgt, str) and r.tgt not in order: order.append(r.tgt)
        for reg in m.regions:
            if reg[0] not in order: order.append(reg[0])
        for n in m.states:
            if n not in order: order.append(n)
        for k, n in enumerate(order):
            out.append('VF_CHECK(VFN(vf_sid)(%d) == %d, "%s:documented state id of %s");' % (m.states[n].idx, k, tag, n))
    return out


def post_checks(prog, conf, tag, idfn='VFN(vf_id)'):
    out = []
    if not conf.started: return out
    for m in conf.active_machines():
        if m.name in getattr(conf, 'unspec', ()): continue
        for r, name in enumerate(conf.m[m.name]['active']):
            out.append('VF_CHECK(%s(%d, %d) == VFN(vf_sid)(%d), "%s:active-id m%d r%d");' % (idfn, m.idx, r, m.states[name].idx, tag, m.idx, r))
    return out


class Trie:
    def __init__(s): s.ch = {}; s.order = []; s.leaf = None


def build_trie(prog, paths, proj, leaf_fn):
    root = Trie()
    for dec, log, res, post in paths:
        node = root
        for ent in log:
            if ent[0] not in proj: continue
            key = entry_c(prog, ent)
            if key not in node.ch: node.ch[key] = Trie(); node.order.append(key)
            node = node.ch[key]
        leaf = (tuple(sorted(dec.items())), leaf_fn(dec, log, res, post))
        if node.leaf is None: node.leaf = [leaf]
        elif leaf not in node.leaf: node.leaf.append(leaf)
    return root


def dec_cond(dec):
    if not dec: return '1'
    return ' && '.join(('vf_gv[%d] == %d' % (site, v)) if site < 1000 else ('(vf_throw_site0 == %d) == %d' % (site - 1000, v)) for site, v in dec)


def emit_trie(node, depth, ind, tag, out):
    pad = '  ' * ind
    first = True
    if node.leaf is not None:
        out.append('%sif (vf_nlog == %d) {' % (pad, depth))
        # the path(s) of the reference model ending here: the guard valuation decides which one applies
        for k, (dec, checks) in enumerate(node.leaf):
            out.append('%s  %sif (%s) {' % (pad, '' if k == 0 else 'else ', dec_cond(dec)))
            for l in checks: out.append(pad + '    ' + l)
            out.append('%s  }' % pad)
        out.append('%s  else { VF_CHECK(0, "%s:behaviour not admissible for this guard valuation"); }' % (pad, tag))
        out.append('%s}' % pad)
        first = False
    for key in node.order:
        code, arg = key
        cond = 'vf_nlog > %d && vf_lc[%d] == %s' % (depth, depth, code)
        if arg is not None: cond += ' && vf_la[%d] == (int32_t)(%s)' % (depth, arg)
        out.append('%s%sif (%s) {' % (pad, '' if first else 'else ', cond))
        emit_trie(node.ch[key], depth + 1, ind + 1, tag, out)
        out.append('%s}' % pad)
        first = False
    if first:
        out.append('%sVF_CHECK(0, "%s:log-mismatch at %d");' % (pad, tag, depth))
    else:
        out.append('%selse { VF_CHECK(0, "%s:log-mismatch at %d"); }' % (pad, tag, depth))


def result_checks(res, tag):
    """the two result facts the properties state: handled bit iff a transition was taken; zero iff nothing matched"""
    if res is None: return []
    out = []
    out.append('VF_CHECK(((r & 1) != 0) == %d, "%s:handled-bit");' % (1 if res & H_TRUE else 0, tag))
    out.append('VF_CHECK((r == 0) == %d, "%s:zero-result");' % (1 if res == 0 else 0, tag))
    return out


def step_call(prog, st, decs=None, pay='0'):
    g = 0; ts = -1
    for site, v in (decs or {}).items():
        if site >= 1000:
            if v: ts = site - 1000
        elif v: g |= 1 << site
    pre = 'vf_set_guards(0x%xu); ' % g if decs is not None else ''
    if decs is not None and any(k >= 1000 for k in decs): pre += 'vf_throw_site = %d; ' % ts
    if st[0] == 'start': return pre + 'VFN(vf_start)();'
    if st[0] == 'stop': return pre + 'VFN(vf_stop)();'
    if st[0] == 'ev':
        return pre + '(void)VFN(vf_ev)(%d, %s);' % (prog.events.index(st[1]), st[2] if len(st) > 2 and st[2] != 'P' else pay)
    if st[0] == 'enq': return pre + 'VFN(vf_enq)(%d, %s);' % (prog.events.index(st[1]), st[2] if len(st) > 2 and st[2] != 'P' else pay)
    if st[0] == 'destroy': return pre + 'VFN(vf_destroy)();'
    if st[0] == 'execq': return pre + 'VF_EXECQ();'
    if st[0] == 'exec1': return pre + 'VFN(vf_exec1)();'
    raise ValueError(st)


def fixed_guard_sites(prog, conf):
    """guard sites the quantifiers hold fixed during the step: (mask, value)
    * completion rows whose source state is active: false until the state is re-entered (C10)
    * Defer-action rows of active states while a deferred event is pending: the deferring condition persists (C05)"""
    mask = 0; val = 0
    if not conf.started: return 0, 0
    for m in conf.active_machines():
        for name in conf.m[m.name]['active']:
            for row in m.rows:
                if row.guard is None or row.src != name: continue
                if row.evt is None:
                    # (single-step mode: a completion event still pending in the pool has not consulted its guards yet)
                    if any(q[0] == '<c>' and q[1] == m.name and q[3] == name for q in conf.queue): continue
                    mask |= 1 << row.guard
                elif row.act == 'defer' and any(e[0] == row.evt for e in conf.deferred):
                    mask |= 1 << row.guard; val |= 1 << row.guard
    return mask, val


def active_completion_sites(prog, conf):
    return fixed_guard_sites(prog, conf)[0]


def emit_harness(prog, confs, steps, tag, throws=False, proj=KINDS_ALL, check_result=True, check_post=True, check_flags=False, probe=None, check_introspect=False, check_queue=False, copy_modes=None, ser_states=None,
                 extra_pre=None, extra_leaf=None, nsites=None):
    """confs: list of (conf, script).  steps: symbolic step alphabet (list of step descriptors;
    all 'ev' steps are merged into one nondet kind).  Emits harness_p<i> per configuration."""
    out = ['/* generated by vf/emit.py: oracle tries for %s (%s) */' % (prog.name, tag)]
    if copy_modes: out.append('#define VF_TWO_MACHINES 1')
    out.append('#include "vf_harness.h"')
    sites = guard_sites(prog)
    ns = (max(sites) + 1) if sites else 1
    out.append('#define VF_NSITES %d' % ns)
    evsteps = [s for s in steps if s[0] == 'ev']
    others = [s for s in steps if s[0] != 'ev']
    nh = 0
    index = []
    for ci, (conf, script) in enumerate(confs):
        # checkers
        fns = []
        decs_by_kind = {}; decs_by_step = {}; decs_by_alt = {}; tsites_by_kind = {}
        my_steps = [st for st in steps if (st[0] == 'start') != conf.started and not (st[0] == 'exec1' and not conf.queue)]
        for st in my_steps:
            paths = explore(prog, conf, lambda sem, st=st: run_step(sem, st), probe=probe, throws=throws)
            def leaf_fn(dec, log, res, post):
                l = []
                if check_result: l += result_checks(res, tag)
                if check_post and not copy_modes: l += post_checks(prog, post, tag)
                if copy_modes:
                    # the driven machine (original or copy) ends where the reference says; the other one is untouched
                    l += post_checks(prog, post, tag + ':driven', 'VF_ID_DRIVEN')
                    l += post_checks(prog, conf, tag + ':other machine changed', 'VF_ID_OTHER')
                    if check_queue:
                        l.append('VF_CHECK(VF_QSIZE_DRIVEN() == %d, "%s:pending events of the driven machine");' % (len(post.queue) + len(post.deferred), tag))
                        l.append('VF_CHECK(VF_QSIZE_OTHER() == %d, "%s:pending events of the other machine changed");' % (len(conf.queue) + len(conf.deferred), tag))
                if check_flags: l += flag_checks(prog, post, tag)
                if check_introspect: l += introspect_checks(prog, post, tag)
                if check_queue and not copy_modes: l.append('VF_CHECK(VFN(vf_qsize)() == %d, "%s:number of pending events");' % (len(post.queue) + len(post.deferred), tag))
                if extra_leaf: l += extra_leaf(conf, st, dec, log, res, post)
                return tuple(l)
            trie = build_trie(prog, paths, proj, leaf_fn)
            fn = 'check_%d_%s' % (ci, '_'.join(str(x) for x in st))
            body = []
            emit_trie(trie, 0, 1, tag, body)
            out.append('static void %s(uint32_t r, int32_t P) {\n%s\n}' % (fn, '\n'.join(body)))
            fns.append((st, fn, len(paths)))
            if st[0] == 'ev':
                decs_by_kind[prog.events.index(st[1])] = [[[site, v] for site, v in dec.items() if site < 1000] for dec, _, _, _ in paths]
                tsites_by_kind[prog.events.index(st[1])] = sorted(set(site - 1000 for dec, _, _, _ in paths for site in dec if site >= 1000))
            else:
                decs_by_step[fn] = [[[site, v] for site, v in dec.items()] for dec, _, _, _ in paths]
        out.append('void harness_p%d(void) {' % ci)
        out.append('  vf_init();')
        out.append('  vf_projmask = %s;' % ' | '.join('VF_M_' + k for k in proj))
        out.append('  vf_in_prefix = 1;')
        for st, dec in script:
            out.append('  ' + step_call(prog, st, dec))
        out.append('  vf_in_prefix = 0;' + (' vf_throw_site = -1;' if throws else ''))
        for l in post_checks(prog, conf, tag + ':prefix'): out.append('  ' + l)
        if copy_modes:
            out.append('  uint32_t cmode = vf_nondet(5); VF_ASSUME(%s);' % ' || '.join('cmode == %d' % cm_ for cm_ in copy_modes))
            out.append('#ifdef VF_CMODE')
            out.append('  cmode = VF_CMODE; vf_inputs[5] = cmode;')
            out.append('#endif')
            out.append('  VFN(vf_copy)(cmode);')
            out.append('  vf_which = vf_nondet(6) & 1u;      /* which of the two machines the continuation drives */')
            out.append('#ifdef VF_WHICH')
            out.append('  vf_which = VF_WHICH; vf_inputs[6] = vf_which;')
            out.append('#endif')
            out.append('  if (cmode >= 2) { vf_which = 1; vf_inputs[6] = 1; }   /* after a move only the target carries the state */')
            for l in post_checks(prog, conf, tag + ':copy has the configuration of the original', 'VFN(vf_id2)'): out.append('  ' + l)
            if ser_states is not None:
                for m in prog.machines:
                    for st in m.states.values():
                        if st.kind != 'simple': continue
                        if st.name in ser_states:
                            out.append('  VF_CHECK(VFN(vf_cnt)(1, %d) == VFN(vf_cnt)(0, %d), "%s:data of a do_serialize state not restored");' % (st.idx, st.idx, tag))
                        else:
                            out.append('  VF_CHECK(VFN(vf_cnt)(1, %d) == 0, "%s:data of a state without do_serialize changed by loading");' % (st.idx, tag))
        if check_flags:
            for l in flag_checks(prog, conf, tag + ':prefix'): out.append('  ' + l)
        if check_introspect:
            for l in introspect_checks(prog, conf, tag + ':prefix') + numbering_checks(prog, tag): out.append('  ' + l)
        if extra_pre:
            for l in extra_pre(conf): out.append('  ' + l)
        my_ev = [st for st in my_steps if st[0] == 'ev']
        nalt = (1 if my_ev else 0) + len([st for st in my_steps if st[0] != 'ev'])
        out.append('  uint32_t sel = vf_nondet(0); VF_ASSUME(sel < %d);' % nalt)
        out.append('#ifdef VF_SEL')
        out.append('  sel = VF_SEL; vf_inputs[0] = sel;   /* one query per kind of step (event / enqueue / execute queued / stop ...) */')
        out.append('#endif')
        out.append('  uint32_t kind = vf_nondet(1); VF_ASSUME(kind < %d);' % max(1, len(prog.events)))
        out.append('#ifdef VF_KIND')
        out.append('  kind = VF_KIND; vf_inputs[1] = kind;   /* one query per event kind (guards and payload stay symbolic) */')
        out.append('#endif')
        out.append('  int32_t P = (int32_t)vf_nondet(2);')
        for px in getattr(prog, 'pay_exclude', ()):
            out.append('  VF_ASSUME(P != %d);   /* payload value whose successor collides with the marker logged for completion events */' % px)
        cm, cv = fixed_guard_sites(prog, conf)
        out.append('#ifndef VF_GFIX_MASK')
        out.append('#define VF_GFIX_MASK 0u')
        out.append('#define VF_GFIX_VAL 0u')
        out.append('#endif')
        out.append('  /* all guard sites nondet, except: sites fixed by a case split of the check engine; completion guards of states')
        out.append('     active in the pre-state stay false (C10) and Defer guards stay true while an event is pending (C05) */')
        out.append('  vf_nondet_guards(VF_GFIX_MASK | 0x%xu, (VF_GFIX_VAL & ~0x%xu) | 0x%xu);' % (cm, cm, cv))
        if throws:
            out.append('  vf_throw_site = (int32_t)vf_nondet(7); VF_ASSUME(vf_throw_site >= -1 && vf_throw_site < 256);   /* C12: which behaviour position throws (-1: none) */')
            out.append('#ifdef VF_TSITE')
            out.append('  vf_throw_site = VF_TSITE; vf_inputs[7] = (uint32_t)vf_throw_site;')
            out.append('#endif')
            out.append('#ifdef VF_TSITE_COND')
            out.append('  { int32_t t = vf_throw_site; VF_ASSUME(VF_TSITE_COND); }   /* case split of the check engine: no consulted position throws */')
            out.append('#endif')
            out.append('  vf_throw_site0 = vf_throw_site;')
        out.append('#ifdef VF_EXCLUDE')
        out.append('  { int32_t K = (int32_t)kind, S = (int32_t)sel, T = %s, W = %s, M = %s; uint32_t G = vf_inputs[3]; (void)K; (void)S; (void)T; (void)W; (void)M; (void)G; VF_ASSUME(!(VF_EXCLUDE)); }   /* inputs of a registered known finding */' % (
            'vf_throw_site' if throws else '-1', '(int32_t)vf_which' if copy_modes else '0', '(int32_t)cmode' if copy_modes else '0'))
        out.append('#endif')
        out.append('  vf_nlog = 0; uint32_t r = 0;')
        alt = 0
        if my_ev:
            out.append('  if (sel == 0) {')
            allowed = [prog.events.index(s[1]) for s in my_ev]
            out.append('    VF_ASSUME(%s);' % ' || '.join('kind == %d' % k for k in allowed))
            out.append('    r = (uint32_t)VF_EV(kind, P);')
            for st, fn, _ in fns:
                if st[0] == 'ev': out.append('    if (kind == %d) %s(r, P);' % (prog.events.index(st[1]), fn))
            out.append('  }')
            alt = 1
        for st, fn, _ in fns:
            if st[0] == 'ev': continue
            out.append('  if (sel == %d) { %s %s(0, P); }' % (alt, step_call(prog, st, None, 'P'), fn))
            decs_by_alt[alt] = decs_by_step.get(fn, [])
            alt += 1
        if copy_modes:
            out.append('  if (cmode >= 2) { VFN(vf_reuse_moved_from)(); VF_CHECK(VFN(vf_id)(0, 0) == VFN(vf_sid)(%d), "%s:moved-from machine reusable"); }' % (prog.root.states[prog.root.regions[0][0]].idx, tag))
        out.append('  VF_WITNESS();')
        out.append('}')
        index.append({'harness': 'harness_p%d' % ci, 'conf': conf_str(conf),
                      'script': [(list(st), dec) for st, dec in script],
                      'paths': sum(n for _, _, n in fns), 'decs_by_kind': decs_by_kind, 'decs_by_alt': decs_by_alt, 'tsites_by_kind': tsites_by_kind, 'nalt': nalt, 'has_ev': bool(my_ev), 'copy_modes': list(copy_modes) if copy_modes else None})
        nh += 1
    out.append('#ifndef __CPROVER__')
    out.append('void (*vf_harnesses[])(void) = {%s};' % ', '.join('harness_p%d' % i for i in range(nh)))
    out.append('int vf_nharness = %d;' % nh)
    out.append('#endif')
    return '\n'.join(out) + '\n', index


def emit_liveness_harness(prog, confs, tag, proj):
    """C12 'the machine is not wedged': confs are configurations reached by a prefix in which an exception aborted the entry
    cascade of a submachine that is (by the switch policy) the active state afterwards.  What the ids inside it are is not
    specified, so the reference cannot predict the next step exactly; the oracle is the part that holds for EVERY choice of
    inner states: an event submitted afterwards is dispatched (some guard, action, entry, exit or no_transition is observed).
    Event kinds for which some choice of inner states and guard valuation gives an empty log are excluded."""
    import itertools
    out = ['/* generated by vf/emit.py: liveness after an aborted submachine entry, %s (%s) */' % (prog.name, tag), '#include "vf_harness.h"']
    sites = guard_sites(prog)
    out.append('#define VF_NSITES %d' % ((max(sites) + 1) if sites else 1))
    index = []
    for ci, (conf, script) in enumerate(confs):
        kinds = []
        for k, ev in enumerate(prog.events):
            ok = True
            ms = [m for m in prog.machines if m.name in conf.unspec]
            for combo in itertools.product(*[list(itertools.product(*m.regions)) for m in ms]):
                c2 = conf.clone(); c2.unspec = set()
                for m, act in zip(ms, combo): c2.m[m.name]['active'] = list(act)
                for dec, log, res, post in explore(prog, c2, lambda sem, ev=ev: run_step(sem, ('ev', ev, 'P'))):
                    if not any(ent[0] in proj for ent in log): ok = False
            if ok: kinds.append(k)
        out.append('void harness_p%d(void) {' % ci)
        out.append('  vf_init();')
        out.append('  vf_projmask = %s;' % ' | '.join('VF_M_' + k for k in proj))
        out.append('  vf_in_prefix = 1;')
        for st, dec in script: out.append('  ' + step_call(prog, st, dec))
        out.append('  vf_in_prefix = 0; vf_throw_site = -1; vf_throw_site0 = -1;')
        for l in post_checks(prog, conf, tag + ':prefix'): out.append('  ' + l)
        out.append('  uint32_t sel = vf_nondet(0); VF_ASSUME(sel == 0);')
        out.append('  uint32_t kind = vf_nondet(1); VF_ASSUME(%s);' % (' || '.join('kind == %d' % k for k in kinds) or '0'))
        out.append('#ifdef VF_KIND')
        out.append('  kind = VF_KIND; vf_inputs[1] = kind; VF_ASSUME(%s);' % (' || '.join('kind == %d' % k for k in kinds) or '0'))
        out.append('#endif')
        out.append('  int32_t P = (int32_t)vf_nondet(2);')
        for px in getattr(prog, 'pay_exclude', ()):
            out.append('  VF_ASSUME(P != %d);   /* payload value whose successor collides with the marker logged for completion events */' % px)
        out.append('#ifndef VF_GFIX_MASK')
        out.append('#define VF_GFIX_MASK 0u')
        out.append('#define VF_GFIX_VAL 0u')
        out.append('#endif')
        out.append('  vf_nondet_guards(VF_GFIX_MASK, VF_GFIX_VAL);')
        out.append('  vf_nlog = 0;')
        out.append('  (void)VF_EV(kind, P);')
        out.append('  VF_CHECK(vf_nlog > 0, "%s:wedged - an event submitted after the aborted entry is not dispatched");' % tag)
        out.append('  VF_WITNESS();')
        out.append('}')
        index.append({'harness': 'harness_p%d' % ci, 'conf': conf_str(conf) + ' (entry of %s aborted at site %s)' % (','.join(sorted(conf.unspec)), [k_ - 1000 for k_, v_ in script[-1][1].items() if k_ >= 1000 and v_]),
                      'script': [(list(st), dec) for st, dec in script], 'paths': len(kinds), 'decs_by_kind': {}, 'nalt': 1, 'has_ev': True, 'copy_modes': None})
    out.append('#ifndef __CPROVER__')
    out.append('void (*vf_harnesses[])(void) = {%s};' % ', '.join('harness_p%d' % i for i in range(len(confs))))
    out.append('int vf_nharness = %d;' % len(confs))
    out.append('#endif')
    return '\n'.join(out) + '\n', index


def conf_str(conf):
    parts = []
    for m in conf.active_machines() if conf.started else []:
        parts.append('%s[%s]' % (m.name, ','.join(conf.m[m.name]['active'])))
    s = ' '.join(parts) if conf.started else 'not-started'
    hm = {m.name: (m.history != 'none' or conf.prog.full_key) for m in conf.prog.machines}
    hist = ['%s~(%s)' % (n, ','.join(v['hist'])) for n, v in sorted(conf.m.items()) if v['hist'] and hm[n]]
    if hist: s += ' hist:' + ' '.join(hist)
    if conf.queue: s += ' queue:%s' % (conf.queue,)
    if conf.deferred: s += ' deferred:%s' % (conf.deferred,)
    return s


# ------------------------------------------------------------------ product harness (two configurations, no oracle)
def emit_product_harness(prog, confs, steps, tag, maxslots=8, throws=False):
    """same prefix and the same symbolic step applied to configuration A and configuration B of one program;
    asserts equal logs, equal handled/zero status and equal active configurations (by catalogue state index)"""
    out = ['/* generated by vf/emit.py: product harness for %s (%s) */' % (prog.name, tag),
           '#include "vf_product.h"']
    index = []
    for ci, (conf, script) in enumerate(confs):
        out.append('void harness_p%d(void) {' % ci)
        out.append('  vf_pinit();')
        out.append('  vf_in_prefix = 1;')
        for st, dec in script:
            g = 0
            for site, v in (dec or {}).items():
                if v: g |= 1 << site
            out.append('  vf_set_guards(0x%xu);' % g)
            if st[0] == 'start': out.append('  VFA(vf_start)(); VFB(vf_start)();')
            elif st[0] == 'stop': out.append('  VFA(vf_stop)(); VFB(vf_stop)();')
            else:
                k = prog.events.index(st[1]); pv = st[2] if len(st) > 2 and st[2] != 'P' else '0'
                out.append('  (void)VFA(vf_ev)(%d, %s); (void)VFB(vf_ev)(%d, %s);' % (k, pv, k, pv))
        out.append('  vf_in_prefix = 0;')
        out.append('  vf_compare_cfg("%s:prefix");' % tag)
        my_steps = [st for st in steps if (st[0] == 'start') != conf.started]
        my_ev = [st for st in my_steps if st[0] == 'ev']
        others = [st for st in my_steps if st[0] != 'ev']
        out.append('  uint32_t sel = vf_nondet(0); VF_ASSUME(sel < %d);' % ((1 if my_ev else 0) + len(others)))
        out.append('  uint32_t kind = vf_nondet(1); VF_ASSUME(kind < %d);' % max(1, len(prog.events)))
        out.append('#ifdef VF_KIND')
        out.append('  kind = VF_KIND; vf_inputs[1] = kind;')
        out.append('#endif')
        out.append('  int32_t P = (int32_t)vf_nondet(2);')
        for px in getattr(prog, 'pay_exclude', ()):
            out.append('  VF_ASSUME(P != %d);   /* payload value whose successor collides with the marker logged for completion events */' % px)
        cm, cv = fixed_guard_sites(prog, conf)
        out.append('#ifndef VF_GFIX_MASK')
        out.append('#define VF_GFIX_MASK 0u')
        out.append('#define VF_GFIX_VAL 0u')
        out.append('#endif')
        out.append('  vf_nondet_guards(VF_GFIX_MASK | 0x%xu, (VF_GFIX_VAL & ~0x%xu) | 0x%xu);' % (cm, cm, cv))
        out.append('  vf_pn[0] = vf_pn[1] = 0; uint32_t ra = 0, rb = 0;')
        if throws:
            out.append('  int32_t ts = (int32_t)vf_nondet(7); VF_ASSUME(ts >= -1 && ts < 256);   /* the same behaviour position throws in both configurations (-1: none) */')
            out.append('#ifdef VF_TSITE')
            out.append('  ts = VF_TSITE; vf_inputs[7] = (uint32_t)ts;')
            out.append('#endif')
            out.append('#ifdef VF_TSITE_COND')
            out.append('  { int32_t t = ts; VF_ASSUME(VF_TSITE_COND); }')
            out.append('#endif')
            out.append('  vf_pthrow[0] = vf_pthrow[1] = ts;')
        out.append('#ifdef VF_EXCLUDE')
        out.append('  { int32_t K = (int32_t)kind, S = (int32_t)sel, T = %s; uint32_t G = vf_inputs[3]; (void)K; (void)S; (void)T; (void)G; VF_ASSUME(!(VF_EXCLUDE)); }   /* inputs of a registered known finding */' % ('ts' if throws else '-1'))
        out.append('#endif')
        alt = 0
        if my_ev:
            out.append('  if (sel == 0) {')
            out.append('    VF_ASSUME(%s);' % ' || '.join('kind == %d' % prog.events.index(s[1]) for s in my_ev))
            out.append('    ra = (uint32_t)VFA(vf_ev)(kind, P); rb = (uint32_t)VFB(vf_ev)(kind, P);')
            if throws: out.append('    if (ts < 0 || (vf_pthrow[0] >= 0 && vf_pthrow[1] >= 0))   /* the status of a call in which a behaviour threw is not compared */')
            out.append('    vf_compare_results(ra, rb, "%s");' % tag)
            out.append('  }')
            alt = 1
        for st in others:
            fn = 'vf_start' if st[0] == 'start' else 'vf_stop'
            out.append('  if (sel == %d) { VFA(%s)(); VFB(%s)(); }' % (alt, fn, fn))
            alt += 1
        out.append('  vf_compare_logs("%s");' % tag)
        out.append('  vf_compare_cfg("%s");' % tag)
        out.append('  VF_WITNESS();')
        out.append('}')
        decs_by_kind = {}; npaths = 0; tsites_by_kind = {}
        for st in my_ev:
            paths = explore(prog, conf, lambda sem, st=st: run_step(sem, st), throws=throws)
            npaths += len(paths)
            decs_by_kind[prog.events.index(st[1])] = [[[site, v] for site, v in dec.items() if site < 1000] for dec, _, _, _ in paths]
            tsites_by_kind[prog.events.index(st[1])] = sorted(set(site - 1000 for dec, _, _, _ in paths for site in dec if site >= 1000))
        index.append({'harness': 'harness_p%d' % ci, 'conf': conf_str(conf), 'script': [(list(st), dec) for st, dec in script],
                      'paths': npaths, 'decs_by_kind': decs_by_kind, 'tsites_by_kind': tsites_by_kind})
    out.append('#ifndef __CPROVER__')
    out.append('void (*vf_harnesses[])(void) = {%s};' % ', '.join('harness_p%d' % i for i in range(len(confs))))
    out.append('int vf_nharness = %d;' % len(confs))
    out.append('#endif')
    return '\n'.join(out) + '\n', index

"""Machine description DSL + reference semantics (what the properties state, not what a
back-end does).  The reference interpreter runs at *generation time*: for a concrete
abstract pre-state and one step it enumerates every path over the guard valuation and
yields the exact behaviour log; emit.py turns those paths into a C decision trie that the
harness compares with the log produced by the real (IR-translated) MSM code for *symbolic*
event kind / payload / guard bits."""
import copy, itertools

H_FALSE, H_TRUE, H_REJECT, H_DEFERRED = 0, 1, 2, 4


class St:
    def __init__(s, name, kind='simple', sub=None, flags=(), deferred=(), internal=(),
                 end_events=(), region=None, exit_event=None, entry_send=(), exit_send=()):
        s.entry_send = list(entry_send); s.exit_send = list(exit_send)   # [(event, mode)]: events submitted from on_entry / on_exit
        s.name = name; s.kind = kind; s.sub = sub; s.flags = list(flags)
        s.deferred = list(deferred); s.internal = list(internal)
        s.end_events = list(end_events); s.region = region; s.exit_event = exit_event
        s.idx = None          # global index (Program)
        s.owner = None        # Machine


class Row:
    """src: state name | ('exit', sub, pt);  evt: event name | None (completion)
    tgt: None (internal) | state name | ('direct', sub, [names]) | ('entry', sub, pt)
    act: None | int | ('send', id, [(evt, mode)]) | 'defer' ; guard: None | int site"""
    def __init__(s, src, evt, tgt, act=None, guard=None):
        s.src = src; s.evt = evt; s.tgt = tgt; s.act = act; s.guard = guard


class IRow:
    def __init__(s, evt, act=None, guard=None):
        s.evt = evt; s.act = act; s.guard = guard
        s.src = None; s.tgt = None


class Machine:
    def __init__(s, name, regions, states, rows, internal=(), history='none', policy=None,
                 flags=(), deferred=()):
        s.name = name; s.regions = regions; s.rows = list(rows); s.internal = list(internal)
        s.history = history; s.policy = policy
        s.states = {}
        for st in states:
            s.states[st.name] = st; st.owner = s
        for reg in regions:
            for n in reg:
                if n not in s.states: s.states[n] = St(n); s.states[n].owner = s
        s.flags = list(flags)        # flags carried by this machine when used as a submachine state
        s.deferred = list(deferred)  # deferred_events of this machine when used as a state
        s.idx = None                 # machine index (Program)
        s.self_idx = None            # global state index for the machine-as-state

    def region_of(s, name):
        st = s.states[name]
        if st.region is not None: return st.region
        for r, reg in enumerate(s.regions):
            if name in reg: return r
        raise KeyError(name)

    def sub_of(s, name):
        return s.states[name].sub


class Program:
    """root machine + event alphabet.  events: list of names; evt_base: name -> base name"""
    def __init__(s, root, events, evt_base=None, name=None):
        s.root = root; s.events = list(events); s.evt_base = evt_base or {}
        s.name = name or root.name
        s.flags = []
        s.full_key = False
        s.machines = []      # DFS order; root first
        s.all_states = []    # global index -> St or Machine (machine-as-state)
        s._index(root, ())
        s.paths = {}         # machine name -> path tuple of state names from root
        s._paths(root, ())

    def machine(s, name):
        return [m for m in s.machines if m.name == name][0]

    def _index(s, m, path):
        m.idx = len(s.machines); s.machines.append(m)
        m.self_idx = len(s.all_states); s.all_states.append(m)
        for st in m.states.values():
            if st.kind == 'sub':
                s._index(st.sub, path + (st.name,))
                st.idx = st.sub.self_idx
            else:
                st.idx = len(s.all_states); s.all_states.append(st)

    def _paths(s, m, path):
        s.paths[m.name] = path
        for st in m.states.values():
            if st.kind == 'sub': s._paths(st.sub, path + (st.name,))

    def evt_matches(s, trigger, ev):
        """trigger type is the event's type or a (transitive) base of it, or Kleene"""
        if trigger == '*': return True
        e = ev
        while e is not None:
            if e == trigger: return True
            e = s.evt_base.get(e)
        return False


class NeedGuard(Exception):
    def __init__(s, site): s.site = site


class Ctx:
    def __init__(s, prog, dec):
        s.prog = prog; s.dec = dec; s.log = []; s.consulted = []; s.throws = False; s.thrown = False

    def maybe_throw(s, kind, idx):
        """C12: behaviour position (kind 0 entry, 1 exit, 2 action, 3 guard) as a possible throw point; single fault per step"""
        if not s.throws or s.thrown: return
        key = 1000 + kind * 64 + idx
        if key not in s.dec: raise NeedGuard(key)
        if s.dec[key]:
            s.thrown = True
            raise ModelThrow()

    def guard(s, site, cls='G'):
        if isinstance(site, tuple):
            # composite guard expression with C++ short-circuit semantics: ('and', a, b) | ('or', a, b) | ('not', a)
            if site[0] == 'not': return 0 if s.guard(site[1], cls) else 1
            a = s.guard(site[1], cls)
            if site[0] == 'and': return s.guard(site[2], cls) if a else 0
            if site[0] == 'or': return 1 if a else s.guard(site[2], cls)
            raise ValueError(site)
        if cls == 'G': s.maybe_throw(3, site)
        if site not in s.dec: raise NeedGuard(site)
        v = s.dec[site]
        s.consulted.append(site)
        if getattr(s.prog, 'log_srctgt', False) and cls == 'G': s.log.append(('S',) + tuple(getattr(s, 'cur_st', (None, None))))
        if getattr(s, 'sem', None) is not None and s.sem.probe: s.sem.emit_probe()
        s.log.append((cls, site, v))
        return v


class ModelThrow(Exception):
    pass


class Conf:
    """abstract machine state: per machine name -> {'active': [names], 'hist': [names]|None}"""
    def __init__(s, prog):
        s.prog = prog
        s.m = {}
        for m in prog.machines:
            s.m[m.name] = {'active': [reg[0] for reg in m.regions], 'hist': None}
        s.started = False
        s.queue = []      # pending message-queue entries: (evt, payload expr)
        s.deferred = []   # pending deferred entries
        s.blocked_swallowed = 0
        s.unspec = set()    # machines whose inner ids are unspecified (entry aborted by an exception)

    def clone(s):
        c = Conf.__new__(Conf); c.prog = s.prog; c.m = copy.deepcopy(s.m)
        c.started = s.started; c.queue = list(s.queue); c.deferred = list(s.deferred)
        c.blocked_swallowed = s.blocked_swallowed; c.unspec = set(s.unspec)
        return c

    def key(s):
        act = set(m.name for m in s.active_machines()) if s.started else set()
        # FULL_KEY: the last-active ids of exited submachines are part of the abstract state even without history
        # (the real machines keep them; a no-history machine must not depend on them - C08 checks exactly that)
        hm = {m.name: (m.history != 'none' or s.prog.full_key) for m in s.prog.machines}
        # STALE_KEY: a stopped machine keeps its last active ids; with stale_key they are part of the abstract state of a
        # stopped configuration, so that restart is explored from every stale configuration (it must not depend on them)
        if not s.started and getattr(s.prog, 'stale_key', False): act = set(s.m)
        return (s.started, tuple((n, tuple(v['active']) if n in act else None,
                                  tuple(v['hist']) if (v['hist'] and hm[n]) else None)
                                 for n, v in sorted(s.m.items())),
                tuple(s.queue), tuple(s.deferred), tuple(sorted(s.unspec)))

    def active_machines(s, m=None, out=None):
        """machines that are active (root + submachines whose state is active), DFS"""
        if m is None: m = s.prog.root; out = []
        out.append(m)
        for name in s.m[m.name]['active']:
            st = m.states[name]
            if st.kind == 'sub': s.active_machines(st.sub, out)
        return out

    def active_leafs(s):
        """list of (machine, region, St) for every active state at every active level"""
        out = []
        for m in s.active_machines():
            for r, name in enumerate(s.m[m.name]['active']):
                out.append((m, r, m.states[name]))
        return out


class Sem:
    """reference step semantics (what the properties state)"""
    def __init__(s, prog, conf, ctx, pay='P', probe=None):
        s.prog = prog; s.c = conf; s.ctx = ctx; s.pay = pay; s.probe = probe
        s.comp = []          # pending completion checks: (machine, region, state name)
        s.in_flux = set()    # machines whose own entry / exit cascade is running
        ctx.sem = s

    # ---- logging helpers
    def L(s, kind, idx, pay):
        s.ctx.log.append((kind, idx, pay))
        s.emit_probe()
        if kind in ('E', 'X', 'A'): s.ctx.maybe_throw({'E': 0, 'X': 1, 'A': 2}[kind], idx)

    def emit_probe(s):
        if not s.probe: return
        if s.probe == 'flags':
            fl = s.prog.flags
            om = sum(1 << k for k, f in enumerate(fl) if s.flag_or(f))
            am = sum(1 << k for k, f in enumerate(fl) if s.flag_and(f))
            s.ctx.log.append(('F', 0, om | (am << 8)))
        elif s.probe == 'flags_or':
            s.ctx.log.append(('F', 0, sum(1 << k for k, f in enumerate(s.prog.flags) if s.flag_or(f))))
        elif s.probe == 'ids_root':
            m = s.prog.root
            for r, name in enumerate(s.c.m[m.name]['active']):
                s.ctx.log.append(('F', 100 + r, m.states[name].idx))
        elif s.probe == 'ids_all':
            # every machine level, active or not (an inactive submachine keeps the ids it was left in)
            # C19 speaks about the region a transition happens in: the ids of a level are compared only while that level is
            # active and not itself in the middle of being entered or exited (then: logged, value not compared)
            act = s.c.active_machines()
            for m in s.prog.machines:
                for r, name in enumerate(s.c.m[m.name]['active']):
                    spec = m in act and m.name not in s.in_flux
                    s.ctx.log.append(('F', 100 + 8 * m.idx + r, m.states[name].idx if spec else ANY))
        elif s.probe == 'ids':
            for m in s.c.active_machines():
                for r, name in enumerate(s.c.m[m.name]['active']):
                    s.ctx.log.append(('F', 100 + 8 * m.idx + r, m.states[name].idx))

    # ---- flags
    def flag_or(s, f):
        for m in s.c.active_machines():
            if m is not s.prog.root and f in m.flags: return True
            for name in s.c.m[m.name]['active']:
                if f in m.states[name].flags: return True
        return False

    def flag_and(s, f):
        m = s.prog.root
        for name in s.c.m[m.name]['active']:
            st = m.states[name]
            fl = st.sub.flags if st.kind == 'sub' else st.flags
            if f not in fl: return False
        return True

    # ---- blocking (terminate / interrupt states of the root machine)
    def blocked(s, ev):
        m = s.prog.root
        act = [m.states[n] for n in s.c.m[m.name]['active']]
        if any(st.kind == 'term' for st in act): return True
        intr = [st for st in act if st.kind == 'intr']
        if intr:
            if ev is not None and any(ev in st.end_events for st in intr): return False
            return True
        return False

    # ---- deferral
    def is_deferred(s, ev):
        for m in s.c.active_machines():
            if m is not s.prog.root and ev in m.deferred: return True
            for name in s.c.m[m.name]['active']:
                if ev in m.states[name].deferred: return True
        return False

    # ---- entry / exit cascades
    def use_history(s, m, evt):
        cm = s.c.m[m.name]
        if cm['hist'] is None: return False
        if m.history == 'always': return True
        if isinstance(m.history, tuple) and evt in m.history[1]: return True
        return False

    def enter_machine(s, m, pay, explicit=None, evt=None, own_pay=None):
        s.in_flux.add(m.name)
        try:
            s.c.unspec.discard(m.name)
            s.enter_machine_(m, pay, explicit, evt, own_pay)
        except ModelThrow:
            # an entry cascade aborted by an exception: what the ids inside the target submachine are is not specified
            s.c.unspec.add(m.name)
            raise
        finally:
            s.in_flux.discard(m.name)

    def enter_machine_(s, m, pay, explicit=None, evt=None, own_pay=None):
        cm = s.c.m[m.name]
        use_hist = s.use_history(m, evt)
        for r, reg in enumerate(m.regions):
            if explicit and r in explicit: cm['active'][r] = explicit[r]
            elif use_hist: cm['active'][r] = cm['hist'][r]
            else: cm['active'][r] = reg[0]
        s.L('E', m.self_idx, pay if own_pay is None else own_pay)
        for r in range(len(m.regions)):
            s.enter_state(m, r, cm['active'][r], pay, evt)

    def enter_state(s, m, r, name, pay, evt=None):
        st = m.states[name]
        if st.kind == 'sub': s.enter_machine(st.sub, pay, None, evt)
        else:
            s.L('E', st.idx, pay)
            for ev2, mode in st.entry_send: s.submit(ev2, pay)
            if st.kind == 'exit':
                # exit point: the connected outer transition is taken with the forwarded event in the same top-level call
                s.c.queue.append((st.exit_event, pay))
            if any(row.evt is None and row.src == name for row in m.rows):
                s.comp.append((m, r, name))

    def exit_machine(s, m, pay):
        cm = s.c.m[m.name]
        s.in_flux.add(m.name)
        try:
            for r in range(len(m.regions)):
                s.exit_state(m, cm['active'][r], pay)
            s.L('X', m.self_idx, pay)
        finally:
            s.in_flux.discard(m.name)
        cm['hist'] = list(cm['active'])

    def exit_state(s, m, name, pay):
        st = m.states[name]
        if st.kind == 'sub': s.exit_machine(st.sub, pay)
        else:
            s.L('X', st.idx, pay)
            for ev2, mode in st.exit_send: s.submit(ev2, pay)

    # ---- start / stop
    def start(s):
        if s.c.started: return
        s.c.started = True
        s.pay = '-1'
        saved = s.ctx.throws; s.ctx.throws = False      # start()/stop() have no catch handler: throwing there is outside C12
        s.enter_machine(s.prog.root, '-1', None, None)
        s.ctx.throws = saved
        s.run_completions()
        s.drain()

    def stop(s):
        if not s.c.started: return
        s.c.started = False
        saved = s.ctx.throws; s.ctx.throws = False
        s.exit_machine(s.prog.root, '-1')
        s.ctx.throws = saved

    # ---- event dispatch
    def process_event(s, ev, pay='P'):
        """top-level process_event on a quiescent machine; returns result bits or None (not specified)"""
        if s.blocked(ev): return None
        if s.is_deferred(ev):
            s.c.deferred.append(DefEnt((ev, pay))); return H_DEFERRED
        res = s.run_one(ev, pay)
        s.drain()
        return res

    def run_one(s, ev, pay):
        s.pay = pay
        res = s.process_in_machine(s.prog.root, ev, True)
        s.run_completions()
        if res & H_TRUE: s.release_deferred()
        return res

    def drain(s):
        n = 0
        while s.c.queue:
            n += 1
            if n > 12: raise RuntimeError('queue does not drain')
            ent = s.c.queue.pop(0)
            if ent[0] == '<c>':
                s.comp = [(s.prog.machine(ent[1]), ent[2], ent[3])] + s.comp
                s.run_completions(); continue
            ev, pay = ent
            if s.blocked(ev): continue
            if s.is_deferred(ev): s.c.deferred.append(DefEnt((ev, pay))); continue
            s.run_one(ev, pay)

    def release_deferred(s):
        """deferred events that the active configuration no longer defers are re-offered in arrival order, each at most
        once per top-level call (an event deferred again by a Defer action waits for the next handled event)"""
        tried = []
        n = 0
        progress = True
        while progress:
            progress = False
            for k, ent in enumerate(s.c.deferred):
                ev, pay = ent
                if any(ent is t for t in tried): continue
                if s.blocked(ev): break
                if not s.is_deferred(ev):
                    del s.c.deferred[k]
                    n += 1
                    if n > 12: raise RuntimeError('deferred queue does not drain')
                    s.pay = pay
                    before = len(s.c.deferred)
                    r = s.process_in_machine(s.prog.root, ev, True)
                    for t in s.c.deferred[before:]: tried.append(t)     # deferred again in this cycle
                    s.run_completions()
                    progress = True
                    break

    def run_completions(s):
        n = 0
        while s.comp:
            n += 1
            if n > 24: raise RuntimeError('completion chain does not end')
            s.run_completion_once()

    def run_completion_once(s):
        m, r, name = s.comp.pop(0)
        if m not in s.c.active_machines() or s.c.m[m.name]['active'][r] != name: return
        if s.blocked(None): return
        s.pay = '-1'
        cands = [x for x in reversed(m.rows) if x.src == name and x.evt is None]
        try:
            for row in cands:
                if row.guard is not None and not s.ctx.guard(row.guard, 'Q'): continue
                s.take(m, r, row, None)
                break
        except ModelThrow:
            s.ctx.log.append(('C', m.idx, s.pay))

    # ---- backmp11 single-step mode (Program.pool_completions): a completion event is an entry of the event pool, pushed to
    # its front when the source state is entered; process_event_pool(1) dispatches exactly one entry, event or completion
    def comp_to_markers(s):
        for m, r, name in s.comp: s.c.queue.insert(0, ('<c>', m.name, r, name))
        s.comp = []

    def exec_one_pooled(s):
        if not s.c.queue: return
        ent = s.c.queue.pop(0)
        if ent[0] == '<c>':
            s.comp = [(s.prog.machine(ent[1]), ent[2], ent[3])]
            s.run_completion_once()
        else:
            ev, pay = ent
            if s.blocked(ev): return
            if s.is_deferred(ev): s.c.deferred.append(DefEnt((ev, pay))); return
            s.pay = pay
            res = s.process_in_machine(s.prog.root, ev, True)
            if res & H_TRUE: s.release_deferred()
        s.comp_to_markers()

    def process_in_machine(s, m, ev, toplevel):
        cm = s.c.m[m.name]
        res = 0
        try:
            for r in range(len(m.regions)):
                res |= s.dispatch_region(m, r, ev)
            if not (res & (H_TRUE | H_DEFERRED)):
                res |= s.try_rows(m, None, [x for x in reversed(m.internal)], ev)
        except ModelThrow:
            # the machine level that was processing the event catches: exception_caught once, event not handled at this level,
            # no further behaviour of the aborted transition, no no_transition
            s.ctx.log.append(('C', m.idx, s.pay))
            s.res_unspecified = True
            return H_REJECT if not toplevel else 0
        if res == 0 and toplevel:
            for r in range(len(m.regions)):
                s.ctx.log.append(('N', m.idx, cm['active'][r], s.pay))
        return res

    def row_source_active(s, m, name, row):
        """row is a candidate for active state `name`"""
        if row.src == name: return True
        if isinstance(row.src, tuple) and row.src[0] == 'exit' and row.src[1] == name:
            sub = m.states[name].sub
            pt = row.src[2]
            return s.c.m[sub.name]['active'][sub.region_of(pt)] == pt
        return False

    def dispatch_region(s, m, r, ev):
        cm = s.c.m[m.name]
        name = cm['active'][r]
        st = m.states[name]
        res = 0
        if st.kind == 'sub':
            sub = s.process_in_machine(st.sub, ev, False)
            if sub & (H_TRUE | H_DEFERRED): return sub & (H_TRUE | H_DEFERRED)
            res |= sub
            cands = []
        else:
            cands = [x for x in reversed(st.internal)]
        cands += [x for x in reversed(m.rows) if s.row_source_active(m, name, x)]
        return res | s.try_rows(m, r, cands, ev)

    def try_rows(s, m, r, cands, ev):
        res = 0
        for row in cands:
            if row.evt is None or not s.prog.evt_matches(row.evt, ev): continue
            for ev2, mode in getattr(row, 'gsend', ()): s.submit(ev2, s.pay)
            s.ctx.cur_st = s.srctgt(m, r, row)
            if row.guard is not None and not s.ctx.guard(row.guard, 'Q' if row.act == 'defer' else 'G'):
                res |= H_REJECT; continue
            return s.take(m, r, row, ev)
        return res

    def take(s, m, r, row, ev):
        cm = s.c.m[m.name]
        if row.act == 'defer':
            s.c.deferred.append(DefEnt((ev, s.pay))); return H_DEFERRED
        if row.tgt is None:          # internal
            s.action(row); return H_TRUE
        pol = m.policy or 'after_entry'
        src = cm['active'][r]
        tgt = row.tgt
        tname = tgt[1] if isinstance(tgt, tuple) else tgt
        if pol == 'before_transition': cm['active'][r] = tname
        # exit uses the source state (ids of the region may already name the target)
        s.exit_state(m, src, s.pay)
        if pol == 'after_exit': cm['active'][r] = tname
        s.action(row)
        if pol == 'after_transition_action': cm['active'][r] = tname
        if isinstance(tgt, tuple) and tgt[0] == 'direct':
            sub = m.states[tgt[1]].sub
            explicit = {sub.region_of(n): n for n in tgt[2]}
            s.enter_machine(sub, s.pay, explicit, ev)
            cm['active'][r] = tname
        elif isinstance(tgt, tuple) and tgt[0] == 'entry':
            sub = m.states[tgt[1]].sub
            explicit = {sub.region_of(tgt[2]): tgt[2]}
            s.enter_machine(sub, s.pay, explicit, ev)
            cm['active'][r] = tname
            # second part of the compound transition: the inner transition triggered by the same event
            s.process_in_machine(sub, ev, False)
        else:
            s.enter_state(m, r, tgt, s.pay, ev)
            cm['active'][r] = tname
        return H_TRUE

    def submit(s, ev, pay):
        """an event submitted while the machine is processing: stored, dispatched after the current step, FIFO"""
        s.c.queue.append((ev, pay_plus1(pay)))

    def srctgt(s, m, r, row):
        """(source index, target index) of the state objects a guard / action functor of this row is called with; None where the
        front-ends pass wrapper or machine types (pseudo states, explicit entries, sm-internal rows)"""
        if r is None: return (None, None)
        src = row.src if isinstance(row.src, str) else None
        if isinstance(row, IRow) or not hasattr(row, 'src'): src = s.c.m[m.name]['active'][r]
        tgt = src if row.tgt is None else (row.tgt if isinstance(row.tgt, str) else None)
        def ix(n): return None if (n is None or m.states[n].kind not in ('simple', 'sub')) else m.states[n].idx
        return (ix(src), ix(tgt))

    def action(s, row):
        a = row.act
        if a is None: return
        st = getattr(s.ctx, 'cur_st', (None, None))
        def LS():
            if getattr(s.prog, 'log_srctgt', False): s.ctx.log.append(('S',) + tuple(st))
        if isinstance(a, int): LS(); s.L('A', a, s.pay)
        elif isinstance(a, tuple) and a[0] == 'seq':
            for x in a[1]: LS(); s.L('A', x, s.pay)       # ActionSequence_: in written order
        elif isinstance(a, tuple) and a[0] == 'send':
            s.L('A', a[1], s.pay)
            for ev2, mode in a[2]: s.submit(ev2, s.pay)
        else: raise NotImplementedError(a)


def pay_plus1(pay):
    if pay == '-1': return '0'
    try: return str(int(pay) + 1)
    except ValueError: return '(int32_t)((uint32_t)(%s) + 1u)' % pay


class DefEnt(tuple):
    """a pending deferred event (kind, payload expression); a distinct object per occurrence"""
    pass


ANY = '*any*'     # log argument that is not specified by the property (not compared)


def explore(prog, conf, stepfn, probe=None, throws=False):
    """enumerate all guard-valuation paths of one step from conf.
    stepfn(sem) -> result.  returns list of (decisions, log, result, postconf)"""
    paths = []
    stack = [{}]
    while stack:
        dec = stack.pop()
        c = conf.clone(); ctx = Ctx(prog, dec); ctx.throws = throws
        try:
            res = stepfn(Sem(prog, c, ctx, probe=probe))
            if ctx.thrown: res = None     # the result code of a call in which a behaviour threw is not specified by C06/C12
            paths.append((dec, ctx.log, res, c))
        except NeedGuard as n:
            for v in (1, 0):
                d = dict(dec); d[n.site] = v; stack.append(d)
    return paths


def flat_sites(g):
    if g is None: return []
    if isinstance(g, tuple): return [x for part in g[1:] for x in flat_sites(part)]
    return [g]


def guard_sites(prog):
    out = set()
    for m in prog.machines:
        for row in list(m.rows) + list(m.internal):
            out.update(flat_sites(row.guard))
        for st in m.states.values():
            for row in st.internal:
                out.update(flat_sites(row.guard))
    return sorted(out)


def bfs(prog, steps, max_depth=6, max_confs=200, throws=False, keep_unspec=False):
    """breadth-first search over abstract configurations.  steps: list of step descriptors
    (('ev', name) | ('stop',) | ('start',)).  Returns list of (conf, script) where script is a
    list of (step, decisions) reaching conf from the constructed (not started) machine."""
    c0 = Conf(prog)
    seen = {c0.key(): (c0, [])}
    order = [c0.key()]
    frontier = [c0.key()]
    edges = 0
    for depth in range(max_depth):
        nxt = []
        for k in frontier:
            conf, script = seen[k]
            for st in steps:
                # prefix events carry distinct concrete payloads (their position in the script), so that the order of
                # pending events of one type is observable
                st0 = (st[0], st[1], str(len(script) + 1)) if (st[0] in ('ev', 'enq') and len(st) == 2) else st
                for dec, log, res, post in explore(prog, conf, lambda sem, st0=st0: run_step(sem, st0), throws=throws):
                    edges += 1
                    pk = post.key()
                    if pk not in seen and len(seen) < max_confs and len(post.queue) + len(post.deferred) <= 3 and not post.unspec:
                        seen[pk] = (post, script + [(st0, dec)])
                        order.append(pk); nxt.append(pk)
                    elif keep_unspec and post.unspec and len(seen) < max_confs:
                        # an entry cascade aborted by an exception: kept as a leaf (the reference cannot continue from it),
                        # one per throwing position
                        pk = (pk, tuple(sorted(k_ for k_, v_ in dec.items() if k_ >= 1000 and v_)))
                        if pk not in seen: seen[pk] = (post, script + [(st0, dec)]); order.append(pk)
        frontier = nxt
        if not frontier: break
    return [seen[k] for k in order], edges


def run_step(sem, st):
    if st[0] == 'ev':
        if not sem.c.started: return None
        return sem.process_event(st[1], st[2] if len(st) > 2 else 'P')
    if st[0] == 'start': sem.start(); return None
    if st[0] == 'stop': sem.stop(); return None
    if st[0] == 'destroy':      # C20: the machine object is destroyed (and a fresh one constructed in its place)
        fresh = Conf(sem.prog)
        sem.c.m = fresh.m; sem.c.started = False; sem.c.queue = []; sem.c.deferred = []; sem.c.unspec = set()
        return None
    if st[0] == 'enq':          # enqueue_event from outside while idle: stored only
        if not sem.c.started: return None
        sem.c.queue.append((st[1], st[2] if len(st) > 2 else 'P')); return None
    if st[0] == 'execq':        # execute_queued_events / process_event_pool
        sem.drain(); return None
    if st[0] == 'exec1' and getattr(sem.prog, 'pool_completions', False):
        sem.exec_one_pooled(); return None
    if st[0] == 'exec1':        # single-step variant: exactly the oldest pending event
        if sem.c.queue:
            ev, pay = sem.c.queue.pop(0)
            if not sem.blocked(ev):
                if sem.is_deferred(ev): sem.c.deferred.append(DefEnt((ev, pay)))
                else: sem.run_one(ev, pay)
        return None
    raise ValueError(st)

import sys, itertools
from vf import model, emit, catalog, runner
name = sys.argv[1]; be = int(sys.argv[2])
prog = catalog.CATALOG[name]()
steps = [('ev', e) for e in prog.events]
confs, edges = model.bfs(prog, [('start',)] + steps, max_depth=5)
confs = [c for c in confs if c[0].started and len(c[0].deferred) + len(c[0].queue) <= 2]
print(len(confs), 'configurations', edges, 'edges')
cpp = emit.emit_cpp(prog, {'defines': ['VF_KLEENE_ON 1'], 'queue_api': True, 'has_deferred': any(st.deferred for m in prog.machines for st in m.states.values()) or bool(getattr(prog, 'sm_extra', None))})
import os
proj = tuple(os.environ.get('PROJ', ''.join(emit.KINDS_ALL)))
h, index = emit.emit_harness(prog, confs, steps, 'DEV', proj=proj, check_flags=bool(prog.flags))
u = runner.Unit(name, be, cpp, h, index); u.nevents = len(prog.events)
print(u.dir)
u.build_real()
print('built', u.times)
ns = max(model.guard_sites(prog)) + 1
bad = 0
import random
rnd = random.Random(1)
for hi in range(len(index)):
    for kind in range(len(prog.events)):
        for t in range(40):
            g = rnd.getrandbits(ns)
            rc, out = u.run_native(u.exe_real, hi, [0, kind, 7, g])
            if rc not in (0, 77):
                bad += 1
                if bad < 4:
                    rc, out = u.run_native(u.exe_real, hi, [0, kind, 7, g], True)
                    print('FAIL harness', hi, index[hi]['conf'], 'kind', kind, 'g', bin(g)); print(out)
print('bad', bad)

// C20 kernel: the real boost::msm::backmp11::detail::basic_polymorphic driven through extern "C" entry points.
// Payload type grid: sizes 1..200 bytes, alignments 1..64, trivially copyable / user copy+move+dtor with instance
// counting and a self pointer / throwing (non-noexcept) move / virtual destructor.
#include <boost/msm/backmp11/detail/basic_polymorphic.hpp>
#include <new>
#include <cstdint>
#include <cstring>
using boost::msm::backmp11::detail::basic_polymorphic;
extern "C" { void vf_bp_hook(int what, int type); }   // 0 construct (any ctor), 1 destruct, 2 self pointer broken
struct B { int v; };

template <int N> struct Triv : B { unsigned char pad[N]; };
template <int N, int A> struct alignas(A) TrivA : B { unsigned char pad[N]; };
template <int T, int N> struct NonTriv : B {
  unsigned char pad[N]; NonTriv* self;
  explicit NonTriv(int x) : self(this) { v = x; fill(); vf_bp_hook(0, T); }
  NonTriv(NonTriv const& o) : self(this) { v = o.v; std::memcpy(pad, o.pad, N); o.check(); vf_bp_hook(0, T); }
  NonTriv(NonTriv&& o) noexcept : self(this) { v = o.v; std::memcpy(pad, o.pad, N); o.check(); o.v = -7; vf_bp_hook(0, T); }
  ~NonTriv() { check(); vf_bp_hook(1, T); }
  void fill() { pad[0] = (unsigned char)v; pad[N / 2] = (unsigned char)(v + 1); pad[N - 1] = (unsigned char)(v + 2); }
  void check() const { if (self != this) vf_bp_hook(2, T); }
};
template <int T> struct ThrowMove : B {      // move constructor not noexcept: must live on the heap
  ThrowMove* self;
  explicit ThrowMove(int x) : self(this) { v = x; vf_bp_hook(0, T); }
  ThrowMove(ThrowMove const& o) : self(this) { v = o.v; vf_bp_hook(0, T); }
  ThrowMove(ThrowMove&& o) : self(this) { v = o.v; vf_bp_hook(0, T); }
  ~ThrowMove() { if (self != this) vf_bp_hook(2, T); vf_bp_hook(1, T); }
};

typedef basic_polymorphic<B> BP;          // default buffer: 56 bytes, alignment 8
#define NSLOT 3
// typed storage with manual lifetime (an untyped byte array would defeat CBMC's field sensitivity)
union Slot { BP bp; Slot() {} ~Slot() {} };
static Slot g_s0, g_s1, g_s2;
static BP* slot(int i) { return i == 0 ? &g_s0.bp : i == 1 ? &g_s1.bp : &g_s2.bp; }

template <class U> static void mk_triv(int a, int val) {
  U u; std::memset(&u, 0, sizeof u); u.v = val;
  unsigned char* p = reinterpret_cast<unsigned char*>(&u);
  p[sizeof(U) - 1] = (unsigned char)(val ^ 0x5a);           // last byte of the object representation
  new (slot(a)) BP(BP::make(u));
}
template <class U> static int last_byte(int a) { return reinterpret_cast<unsigned char*>(slot(a)->get())[sizeof(U) - 1]; }
template <class U> static void mk_ctor(int a, int val) { new (slot(a)) BP(BP::template make<U>(val)); }

extern "C" {
// types: 0 Triv<1>  1 Triv<44>  2 Triv<52>(=56 bytes, fits exactly)  3 Triv<53>(=60 -> heap)  4 TrivA<8,16>(alignment 16 -> heap)
//        5 TrivA<40,64>  6 Triv<196>(200 bytes)  7 NonTriv<7,4> (inline)  8 NonTriv<8,100> (heap)  9 ThrowMove<9> (heap)
__attribute__((noinline)) void bp_make(int a, int type, int val) {
  switch (type) {
    case 0: mk_triv<Triv<1> >(a, val); break;
    case 1: mk_triv<Triv<44> >(a, val); break;
    case 2: mk_triv<Triv<52> >(a, val); break;
    case 3: mk_triv<Triv<53> >(a, val); break;
    case 4: mk_triv<TrivA<8, 16> >(a, val); break;
    case 5: mk_triv<TrivA<40, 64> >(a, val); break;
    case 6: mk_triv<Triv<196> >(a, val); break;
    case 7: mk_ctor<NonTriv<7, 4> >(a, val); break;
    case 8: mk_ctor<NonTriv<8, 100> >(a, val); break;
    default: mk_ctor<ThrowMove<9> >(a, val); break;
  }
}
__attribute__((noinline)) int bp_size(int type) {
  switch (type) { case 0: return sizeof(Triv<1>); case 1: return sizeof(Triv<44>); case 2: return sizeof(Triv<52>); case 3: return sizeof(Triv<53>);
    case 4: return sizeof(TrivA<8, 16>); case 5: return sizeof(TrivA<40, 64>); case 6: return sizeof(Triv<196>); case 7: return sizeof(NonTriv<7, 4>);
    case 8: return sizeof(NonTriv<8, 100>); default: return sizeof(ThrowMove<9>); }
}
__attribute__((noinline)) int bp_align(int type) {
  switch (type) { case 4: return 16; case 5: return 64; case 7: return alignof(NonTriv<7, 4>); case 8: return alignof(NonTriv<8, 100>); case 9: return alignof(ThrowMove<9>); default: return alignof(B); }
}
__attribute__((noinline)) int bp_nothrow_move(int type) { return type != 9; }
__attribute__((noinline)) void bp_copy_construct(int a, int b) { new (slot(a)) BP(*const_cast<BP const*>(slot(b))); }
__attribute__((noinline)) void bp_move_construct(int a, int b) { new (slot(a)) BP(std::move(*slot(b))); }
__attribute__((noinline)) void bp_copy_assign(int a, int b) { *slot(a) = *const_cast<BP const*>(slot(b)); }
__attribute__((noinline)) void bp_move_assign(int a, int b) { *slot(a) = std::move(*slot(b)); }
__attribute__((noinline)) void bp_destroy(int a) { slot(a)->~BP(); }
__attribute__((noinline)) int bp_value(int a) { return slot(a)->get()->v; }
__attribute__((noinline)) int bp_has_object(int a) { return slot(a)->get() != 0; }
__attribute__((noinline)) int bp_is_inline(int a) { return slot(a)->is_inline(); }
__attribute__((noinline)) int bp_last_byte(int a, int type) {
  switch (type) { case 0: return last_byte<Triv<1> >(a); case 1: return last_byte<Triv<44> >(a); case 2: return last_byte<Triv<52> >(a); case 3: return last_byte<Triv<53> >(a);
    case 4: return last_byte<TrivA<8, 16> >(a); case 5: return last_byte<TrivA<40, 64> >(a); case 6: return last_byte<Triv<196> >(a); default: return -1; }
}
__attribute__((noinline)) int bp_aligned(int a, int type) { return ((uintptr_t)slot(a)->get() % (uintptr_t)bp_align(type)) == 0; }
}

/* C20 kernel harness: symbolic sequence of K operations on 3 basic_polymorphic slots */
#include <stdint.h>
#ifdef GEN
#define F(x) g_##x
typedef uint32_t i32;
void ll2c_init_globals(void);
#else
#define F(x) x
typedef int i32;
#endif
void F(bp_make)(i32, i32, i32);
#define vf_bp_make_ bp_make i32 F(bp_size)(i32); i32 F(bp_align)(i32); i32 F(bp_nothrow_move)(i32);
void F(bp_copy_construct)(i32, i32); void F(bp_move_construct)(i32, i32); void F(bp_copy_assign)(i32, i32); void F(bp_move_assign)(i32, i32);
void F(bp_destroy)(i32); i32 F(bp_value)(i32); i32 F(bp_has_object)(i32); i32 F(bp_is_inline)(i32); i32 F(bp_last_byte)(i32, i32);
#ifndef K
#define K 3
#endif
#define NIN 16
uint32_t vf_inputs[NIN];
#ifdef __CPROVER__
uint32_t nondet_u32(void);
static uint32_t nd(int slot) { uint32_t v = nondet_u32(); vf_inputs[slot] = v; return v; }
#define CHECK(c, m) __CPROVER_assert((c), m)
#define ASSUME(c) __CPROVER_assume(c)
#else
#include <stdio.h>
#include <stdlib.h>
static int failed;
static uint32_t nd(int slot) { return vf_inputs[slot]; }
#define CHECK(c, m) do { if (!(c)) { printf("CHECK-FAILED %s\n", m); failed = 1; } } while (0)
#define ASSUME(c) do { if (!(c)) { printf("ASSUME-FALSE\n"); exit(77); } } while (0)
#endif
enum { EMPTY, LIVE, MOVED };
static int st[3], ty[3]; static int32_t val[3];
static int cnt[10]; static int broken;
void F(vf_bp_hook)(i32 what, i32 type) { if (what == 0) cnt[type]++; else if (what == 1) cnt[type]--; else broken = 1; }
static int exp_inline(int t) { return (int)F(bp_size)(t) <= 56 && (int)F(bp_align)(t) <= 8 && F(bp_nothrow_move)(t); }
static void check_all(void) {
  CHECK(!broken, "C20:self pointer of a stored object not re-seated / destroyed object");
  for (int s = 0; s < 3; s++) {
    if (st[s] == LIVE) {
      CHECK((int32_t)F(bp_value)(s) == val[s], "C20:stored value differs from the submitted one");
      CHECK((F(bp_is_inline)(s) != 0) == (exp_inline(ty[s]) != 0), "C20:inline/heap selection");
      if (ty[s] <= 6) CHECK((int)F(bp_last_byte)(s, ty[s]) == ((val[s] ^ 0x5a) & 0xff), "C20:last byte of the object representation differs");
    }
  }
  for (int t = 7; t < 10; t++) {
    int e = 0;
    for (int s = 0; s < 3; s++) if (ty[s] == t && (st[s] == LIVE || (st[s] == MOVED && exp_inline(t)))) e++;
    CHECK(cnt[t] == e, "C20:constructions minus destructions != objects held");
  }
}
/* pre-state scripts (concrete operations, symbolic values): slot 0 holds type T0, slots 1 and 2 type T1 */
#ifndef PRE
#define PRE 0
#endif
#ifndef T0
#define T0 7
#endif
#ifndef T1
#define T1 3
#endif
static void pre_make(int s, int t, int slotin) { int32_t v = (int32_t)nd(slotin); F(bp_make)(s, t, v); st[s] = LIVE; ty[s] = t; val[s] = v; }
static void pre_movec(int a, int b) { F(bp_move_construct)(a, b); st[a] = LIVE; ty[a] = ty[b]; val[a] = val[b]; st[b] = MOVED; }
static void prefix(void) {
  /* PRE: 0 EEE  1 LEE  2 LLE  3 LLL  4 MLE (slot1 moved-constructed from slot0)  5 MLL  6 LML (slot2 from slot1) */
  if (PRE >= 1) pre_make(0, T0, 10);
  if (PRE == 2 || PRE == 3 || PRE == 6) pre_make(1, T1, 11);
  if (PRE == 3) pre_make(2, T1, 12);
  if (PRE == 4 || PRE == 5) pre_movec(1, 0);
  if (PRE == 5) pre_make(2, T1, 12);
  if (PRE == 6) pre_movec(2, 1);
}
void harness_bp(void) {
#ifdef GEN
  ll2c_init_globals();
#endif
  ty[0] = ty[1] = ty[2] = -1;
  prefix();
  check_all();
  {
    uint32_t op = nd(0), a = nd(1), b = nd(2), tsel = nd(3); int32_t v = (int32_t)nd(4);
    ASSUME(op < 6 && a < 3 && b < 3 && tsel < 2);
    int t = tsel ? T1 : T0;
#define C1(fn, a) do { if ((a) == 0) fn(0); else if ((a) == 1) fn(1); else fn(2); } while (0)
#define C2_(fn, a, b) do { if ((b) == 0) fn(a, 0); else if ((b) == 1) fn(a, 1); else fn(a, 2); } while (0)
#define C2(fn, a, b) do { if ((a) == 0) C2_(fn, 0, b); else if ((a) == 1) C2_(fn, 1, b); else C2_(fn, 2, b); } while (0)
#define MK(a) do { if ((a) == 0) F(bp_make)(0, t, v); else if ((a) == 1) F(bp_make)(1, t, v); else F(bp_make)(2, t, v); } while (0)
    if (op == 0) { ASSUME(st[a] == EMPTY); MK(a); st[a] = LIVE; ty[a] = t; val[a] = v; }
    else if (op == 1) { ASSUME(st[a] == EMPTY && st[b] == LIVE); C2(F(bp_copy_construct), a, b); st[a] = LIVE; ty[a] = ty[b]; val[a] = val[b]; }
    else if (op == 2) { ASSUME(st[a] == EMPTY && st[b] == LIVE); C2(F(bp_move_construct), a, b); st[a] = LIVE; ty[a] = ty[b]; val[a] = val[b]; st[b] = MOVED; }
    else if (op == 3) { ASSUME(st[a] != EMPTY && st[b] == LIVE); C2(F(bp_copy_assign), a, b); st[a] = LIVE; ty[a] = ty[b]; val[a] = val[b]; }
    else if (op == 4) { ASSUME(st[a] != EMPTY && st[b] == LIVE); C2(F(bp_move_assign), a, b); if (a != b) { st[a] = LIVE; ty[a] = ty[b]; val[a] = val[b]; st[b] = MOVED; } }
    else { ASSUME(st[a] != EMPTY); C1(F(bp_destroy), a); st[a] = EMPTY; ty[a] = -1; }
    check_all();
  }
  for (int s = 0; s < 3; s++) if (st[s] != EMPTY) { C1(F(bp_destroy), s); st[s] = EMPTY; ty[s] = -1; }
  check_all();
#ifdef WITNESS
  CHECK(0, "witness:reachable");
#endif
}
#ifndef __CPROVER__
int main(int argc, char** argv) {
  for (int i = 1; i < argc && i - 1 < NIN; i++) vf_inputs[i - 1] = (uint32_t)strtoul(argv[i], 0, 0);
  harness_bp();
  printf(failed ? "RESULT fail\n" : "RESULT ok\n");
  return failed;
}
#endif

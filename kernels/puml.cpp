// C14 kernel: the real PlantUML line tokenizer of boost::msm::front::puml called at run time on a caller-provided buffer
#include <boost/msm/front/puml/puml.hpp>
#include <string_view>
namespace pd = boost::msm::front::puml::detail;
static void put(int* out, int k, const char* base, std::string_view v) {
  out[2 * k] = v.data() ? (int)(v.data() - base) : -1;
  out[2 * k + 1] = (int)v.size();
}
extern "C" {
// out: (offset, length) pairs for source, target, event, guard, action; offset -1 = null view
__attribute__((noinline)) void pu_parse_row(const char* buf, int len, int* out) {
  pd::Transition t = pd::parse_row(std::string_view(buf, (std::size_t)len));
  put(out, 0, buf, t.source); put(out, 1, buf, t.target); put(out, 2, buf, t.event); put(out, 3, buf, t.guard); put(out, 4, buf, t.action);
}
__attribute__((noinline)) int pu_count_actions(const char* buf, int len) { return pd::count_actions(std::string_view(buf, (std::size_t)len)); }
__attribute__((noinline)) int pu_count_transitions(const char* buf, int len) { return pd::count_transitions(std::string_view(buf, (std::size_t)len)); }
__attribute__((noinline)) void pu_cleanup(const char* buf, int len, int* out) { put(out, 0, buf, pd::cleanup_token(std::string_view(buf, (std::size_t)len))); }
}

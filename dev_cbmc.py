import sys, time
from vf import model, emit, catalog, runner
name = sys.argv[1]; be = int(sys.argv[2]); hs = [int(x) for x in sys.argv[3:]] 
prog = catalog.CATALOG[name]()
steps = [('ev', e) for e in prog.events]
confs, edges = model.bfs(prog, [('start',)] + steps, max_depth=5)
confs = [c for c in confs if c[0].started]
cpp = emit.emit_cpp(prog)
h, index = emit.emit_harness(prog, confs, steps, 'DEV')
u = runner.Unit(name, be, cpp, h, index); u.nevents = len(prog.events)
print(u.dir)
u.build_real(); u.lower(); u.build_gen()
print(u.times, len(u.functions), 'functions')
print('validated', u.validate(1))
for hi in (hs or range(len(index))):
    r = u.cbmc(hi)
    print(hi, index[hi]['conf'], r['verdict'], '%.1fs' % r['time'], r['vccs'], r['failed'][:3], r['inputs'][:4] if r['inputs'] else '')
    if r['verdict'] == 'error': print(r['raw_tail'])
    w = u.cbmc(hi, witness=True)
    print('  witness', w['verdict'], [f for f in w['failed']][:2])
